//go:build verif

package main

// wire: the integer codecs of rsyncwire (both copies of WriteInt64: Buffer and Conn; ReadInt32/ReadInt64)
// against the model and an independent reference (protocol description: int32 LE; "long" = int32, or
// 0xffffffff followed by int64 LE when the value does not fit 0..2^31-1).

import (
	"bytes"
	"encoding/binary"
	"fmt"
	"io"
	"math"

	"github.com/gokrazy/rsync/internal/rsyncwire"
)

func init() { suites["wire"] = suiteWire }

func refLong(v int64) []byte {
	var b bytes.Buffer
	if v >= 0 && v <= math.MaxInt32 {
		binary.Write(&b, binary.LittleEndian, int32(v))
	} else {
		b.Write([]byte{0xff, 0xff, 0xff, 0xff})
		binary.Write(&b, binary.LittleEndian, v)
	}
	return b.Bytes()
}

func suiteWire(h *H) {
	vals := []int64{0, 1, 255, 256, 65535, 65536, 1<<31 - 2, 1<<31 - 1, 1 << 31, 1<<31 + 1, 1<<32 - 2, 1<<32 - 1, 1 << 32, 1<<32 + 1, 1<<33 + 5, 1 << 40, 1<<62 + 3, math.MaxInt64,
		-1, -2, -255, -1 << 31, -1<<31 - 1, -1 << 32, math.MinInt64}
	for i := 0; i < h.n(300, 5000); i++ {
		v := int64(h.rng.Uint64())
		switch h.rng.Intn(4) {
		case 0:
			v >>= uint(h.rng.Intn(64))
		case 1:
			v = int64(1)<<uint(h.rng.Intn(63)) + int64(h.rng.Intn(3)) - 1
		}
		vals = append(vals, v)
	}
	for _, v := range vals {
		var buf rsyncwire.Buffer
		buf.WriteInt64(v)
		var cb bytes.Buffer
		c := &rsyncwire.Conn{Writer: &cb}
		c.WriteInt64(v)
		want := refLong(v)
		verdict := ""
		if !bytes.Equal([]byte(buf.String()), want) {
			verdict = fmt.Sprintf("FAIL Buffer.WriteInt64(%d) = %x, protocol says %x", v, buf.String(), want)
		} else if !bytes.Equal(cb.Bytes(), want) {
			verdict = fmt.Sprintf("FAIL Conn.WriteInt64(%d) = %x, protocol says %x", v, cb.Bytes(), want)
		}
		h.emit(fmt.Sprintf("i64.enc %d", v), "ok "+hx([]byte(buf.String())), verdict, true)
		h.emit(fmt.Sprintf("i64.enc %d #conn", v), "ok "+hx(cb.Bytes()), "", true)
		// decode with the real reader
		data := append(append([]byte{}, want...), 0xaa, 0xbb)
		rd := bytes.NewReader(data)
		got, err := (&rsyncwire.Conn{Reader: rd}).ReadInt64()
		impl := "err:eof"
		if err == nil {
			impl = fmt.Sprintf("ok %d rest=%d", got, rd.Len())
			if got != v {
				verdict = fmt.Sprintf("FAIL ReadInt64 of the protocol encoding of %d returned %d", v, got)
			} else {
				verdict = ""
			}
		}
		h.emit("i64.dec "+hx(data), impl, verdict, true)
		h.stat("i64")
		if v >= math.MinInt32 && v <= math.MaxInt32 {
			var b32 bytes.Buffer
			(&rsyncwire.Conn{Writer: &b32}).WriteInt32(int32(v))
			h.emit(fmt.Sprintf("i32.enc %d", v), "ok "+hx(b32.Bytes()), "", true)
			r32 := bytes.NewReader(b32.Bytes())
			g32, _ := (&rsyncwire.Conn{Reader: r32}).ReadInt32()
			h.emit("i32.dec "+hx(b32.Bytes()), fmt.Sprintf("ok %d rest=%d", g32, r32.Len()), "", true)
			h.stat("i32")
		}
	}
	// truncated inputs
	for n := 0; n < 12; n++ {
		data := refLong(1 << 40)[:n]
		_, err := (&rsyncwire.Conn{Reader: bytes.NewReader(data)}).ReadInt64()
		impl := "err:eof"
		if err == nil {
			impl = "ok"
		} else if err != io.EOF && err != io.ErrUnexpectedEOF {
			impl = "err:other"
		}
		if n < 12 {
			h.emit("i64.dec "+hx(data), impl, "", false)
		}
	}
}
