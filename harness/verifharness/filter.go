//go:build verif

package main

// filter: C13 — the real sender's walk (SendFileList) with a rule list on real trees: which entries are
// listed; rule syntaxes the implementation cannot honour.

import (
	"bytes"
	"fmt"
	"io"
	"os"
	"path/filepath"
	"strings"
	"time"

	"github.com/gokrazy/rsync/internal/log"
	"github.com/gokrazy/rsync/internal/progress"
	"github.com/gokrazy/rsync/internal/rsyncos"
	"github.com/gokrazy/rsync/internal/rsyncwire"
	"github.com/gokrazy/rsync/internal/sender"
)

func init() { suites["filter"] = suiteFilter }

func suiteFilter(h *H) {
	base, err := os.MkdirTemp("", "verif-filter")
	if err != nil {
		panic(err)
	}
	defer os.RemoveAll(base)
	caseNo := 0
	run := func(rules []string, tree []tEnt) {
		caseNo++
		dir := filepath.Join(base, fmt.Sprintf("f%d", caseNo))
		os.Mkdir(dir, 0o755)
		defer os.RemoveAll(dir)
		makeTree(dir, tree)
		listing := listTree(dir, "")
		var rh, tl []string
		for _, r := range rules {
			rh = append(rh, hx([]byte(r)))
		}
		for _, e := range listing {
			k := "f"
			if e.kind == 'd' {
				k = "d"
			}
			tl = append(tl, hx([]byte(e.path))+":"+k)
		}
		j := func(x []string) string {
			if len(x) == 0 {
				return "-"
			}
			return strings.Join(x, ",")
		}
		op := fmt.Sprintf("filter %s %s", j(rh), j(tl))
		excl, perr := sender.ParseFilterRules(rules)
		impl := ""
		v := ""
		honourable := true
		for _, r := range rules {
			body := strings.TrimPrefix(strings.TrimPrefix(r, "- "), "+ ")
			if strings.ContainsAny(body, "*?[") {
				honourable = false
			}
		}
		for _, r := range rules {
			body := strings.TrimPrefix(strings.TrimPrefix(r, "- "), "+ ")
			if strings.HasPrefix(body, "/") || strings.HasPrefix(r, "!") {
				honourable = false
			}
		}
		if perr != nil {
			impl = "err:unsupported"
			if honourable {
				v = "FAIL plain-name rules were rejected: " + perr.Error()
			}
		} else {
			var out bytes.Buffer
			st := &sender.Transfer{Logger: log.New(io.Discard), Opts: senderOptsFor(refOpts{links: true}), Env: &rsyncos.Env{Stdout: io.Discard, Stderr: io.Discard},
				Progress: progress.NewPrinter(io.Discard, time.Now), Conn: &rsyncwire.Conn{Reader: strings.NewReader(""), Writer: &out}}
			outcome := "ok"
			func() {
				defer func() {
					if r := recover(); r != nil {
						outcome = "panic"
					}
				}()
				if _, err := st.SendFileList(dir, []string{"/"}, excl); err != nil {
					outcome = "err"
				}
			}()
			es, _, _, derr := refDecodeList(out.Bytes(), refOpts{links: true})
			if outcome != "ok" || derr != nil {
				impl = outcome
				v = "FAIL[C08] the sender's walk failed or panicked with a parsed rule list: " + outcome
			} else {
				var kept []string
				got := map[string]bool{}
				for _, e := range es {
					if string(e.name) != "." {
						kept = append(kept, hx(e.name))
						got[string(e.name)] = true
					}
				}
				impl = "ok " + j(kept)
				if !honourable {
					v = "FAIL a rule with wildcard characters was accepted instead of reported as unsupported"
				}
				// oracle (property text): an entry is left out iff the first rule matching its name — or the name
				// of a directory above it — is an exclude rule
				// (plain-name rules only: a pattern containing a slash is matched against the whole name, which
				// the property text does not speak about; such rules are covered by the comparison with the model)
				plain := true
				for _, r := range rules {
					if strings.Contains(strings.TrimPrefix(strings.TrimPrefix(r, "+ "), "- "), "/") && !strings.HasSuffix(r, "/") {
						plain = false
					}
				}
				for _, e := range listing {
					if !plain {
						break
					}
					want := !excludedByKind(rules, e.path, e.kind == 'd')
					if want != got[e.path] && v == "" {
						if want {
							v = fmt.Sprintf("FAIL entry %q is not excluded by the first matching rule but was left out", e.path)
						} else {
							v = fmt.Sprintf("FAIL entry %q is excluded by the first matching rule but was transferred", e.path)
						}
					}
				}
			}
		}
		h.emit(op, impl, v, len(rules) > 0 && strings.HasPrefix(impl, "ok "))
		h.stat(fmt.Sprintf("filter.rules=%d", len(rules)))
	}
	if h.extra != nil {
		for _, op := range h.extra {
			f := strings.Fields(op)
			if f[0] != "filter" {
				continue
			}
			var rules []string
			if f[1] != "-" {
				for _, x := range strings.Split(f[1], ",") {
					rules = append(rules, string(unhx(x)))
				}
			}
			var tree []tEnt
			if f[2] != "-" {
				for _, x := range strings.Split(f[2], ",") {
					p := strings.SplitN(x, ":", 2)
					tree = append(tree, tEnt{string(unhx(p[0])), p[1][0]})
				}
			}
			run(rules, tree)
		}
		return
	}
	names := []string{"a", "b", "c", "d", "log", "catalog", "a.b"}
	// (a) bounded-exhaustive: one level, 3 names (files and a directory with children), rule lists of 0..2 rules
	mkTree := func(kmask int) []tEnt {
		var t []tEnt
		for i, n := range []string{"a", "b", "c"} {
			if kmask>>i&1 == 1 {
				t = append(t, tEnt{n, 'd'}, tEnt{n + "/a", 'f'}, tEnt{n + "/b", 'f'}, tEnt{n + "/sub", 'd'}, tEnt{n + "/sub/c", 'f'})
			} else {
				t = append(t, tEnt{n, 'f'})
			}
		}
		return t
	}
	var pool []string
	for _, n := range []string{"a", "b", "c", "sub"} {
		pool = append(pool, "- "+n, "+ "+n)
	}
	// the same names restricted to directories: a list may name one pattern in both forms, and both rules count
	pool = append(pool, "- a/", "+ a/", "- b/", "- sub/")
	for kmask := 0; kmask < 8; kmask++ {
		run(nil, mkTree(kmask))
		for _, r1 := range pool {
			run([]string{r1}, mkTree(kmask))
			if h.thorough() || kmask == 2 || kmask == 5 {
				for _, r2 := range pool {
					run([]string{r1, r2}, mkTree(kmask))
				}
			}
		}
	}
	// (c) rule syntax beyond plain names that the implementation accepts without honouring it (finding D18):
	// a trailing slash (directories only), a leading slash (anchored at the transfer root), '!' (clear list)
	for _, rules := range [][]string{{"- a/"}, {"- /a"}, {"- b", "!"}, {"- /sub"}} {
		tree := []tEnt{{"a", 'f'}, {"b", 'f'}, {"d", 'd'}, {"d/a", 'f'}, {"d/sub", 'd'}, {"d/sub/x", 'f'}, {"sub", 'd'}, {"sub/a", 'd'}, {"sub/a/y", 'f'}}
		runD18(h, base, &caseNo, rules, tree)
	}
	// (b) random trees and rule lists of 0..4 rules, via the -f / --exclude / --include spellings
	for i := 0; i < h.n(200, 4000); i++ {
		var tree []tEnt
		var gen func(prefix string, depth int)
		gen = func(prefix string, depth int) {
			for j := h.rng.Intn(5); j > 0; j-- {
				p := prefix + names[h.rng.Intn(len(names))]
				dup := false
				for _, t := range tree {
					if t.path == p {
						dup = true
					}
				}
				if dup {
					continue
				}
				kind := []byte("fffddl")[h.rng.Intn(6)]
				tree = append(tree, tEnt{p, kind})
				if kind == 'd' && depth < 3 {
					gen(p+"/", depth+1)
				}
			}
		}
		gen("", 0)
		var rules []string
		for k := h.rng.Intn(5); k > 0; k-- {
			n := names[h.rng.Intn(len(names))]
			switch h.rng.Intn(10) {
			case 0:
				rules = append(rules, "+ "+n)
			case 1:
				rules = append(rules, n) // bare pattern (what -f 'x' / an old-style line gives): exclude
			case 2:
				rules = append(rules, "- "+n+"*") // wildcard: must be refused
			case 3:
				rules = append(rules, "- a/"+n) // pattern with a slash: matches the full name
			case 4:
				rules = append(rules, "- "+n+"/") // directories only
			case 5:
				rules = append(rules, "+ "+n+"/")
			default:
				rules = append(rules, "- "+n)
			}
		}
		run(rules, tree)
	}
	// (d) long rule lists (what a generated --exclude-from gives): mostly rules for names that do not occur,
	// a few live ones in between — including the same name in its directory-only and plain forms — at every
	// scale from a handful to several hundred rules, because the rule "the first match decides" is about the
	// whole list whatever its length
	for i := 0; i < h.n(60, 1200); i++ {
		total := []int{6, 15, 31, 32, 33, 40, 64, 65, 100, 129, 257, 600}[h.rng.Intn(12)]
		tree := []tEnt{}
		for _, n := range names {
			switch h.rng.Intn(4) {
			case 0:
				tree = append(tree, tEnt{n, 'f'})
			case 1:
				tree = append(tree, tEnt{n, 'd'}, tEnt{n + "/" + names[h.rng.Intn(len(names))], 'f'}, tEnt{n + "/sub", 'd'}, tEnt{n + "/sub/" + names[h.rng.Intn(len(names))], "fd"[h.rng.Intn(2)]})
			case 2:
				tree = append(tree, tEnt{n, 'l'})
			}
		}
		live := map[int]string{}
		slashFill := h.rng.Intn(2) == 0 // rules matched against the whole name among the others: every other list
		for k := 2 + h.rng.Intn(6); k > 0; k-- {
			n := names[h.rng.Intn(len(names))]
			r := []string{"- " + n, "+ " + n, "- " + n + "/", "+ " + n + "/", n, "+ sub", "- sub/" + n}[h.rng.Intn(map[bool]int{true: 7, false: 6}[slashFill])]
			live[h.rng.Intn(total)] = r
			if h.rng.Intn(2) == 0 { // the other form of the same name somewhere later
				o := "- " + n
				if !strings.HasSuffix(r, "/") {
					o = "+ " + n + "/"
				}
				live[h.rng.Intn(total)] = o
			}
		}
		var rules []string
		for k := 0; k < total; k++ {
			if r, ok := live[k]; ok {
				rules = append(rules, r)
				continue
			}
			f := fmt.Sprintf("zz%d", h.rng.Intn(2*total))
			if slashFill && h.rng.Intn(4) == 0 {
				rules = append(rules, "- x/"+f)
				continue
			}
			rules = append(rules, []string{"- " + f, "+ " + f, "- " + f + "/"}[h.rng.Intn(3)])
		}
		run(rules, tree)
	}
}

// runD18: rsync semantics for the three extended syntaxes; the implementation is expected to either
// implement them or refuse the rule.
func runD18(h *H, base string, caseNo *int, rules []string, tree []tEnt) {
	*caseNo++
	dir := filepath.Join(base, fmt.Sprintf("f%d", *caseNo))
	os.Mkdir(dir, 0o755)
	defer os.RemoveAll(dir)
	makeTree(dir, tree)
	listing := listTree(dir, "")
	excl, perr := sender.ParseFilterRules(rules)
	op := "!filter-syntax rules=" + strings.Join(rules, "|")
	if perr != nil {
		// refusing a syntax that cannot be honoured is what the property asks for
		h.emit(op, "err:unsupported", "", true)
		return
	}
	var out bytes.Buffer
	st := &sender.Transfer{Logger: log.New(io.Discard), Opts: senderOptsFor(refOpts{}), Env: &rsyncos.Env{Stdout: io.Discard, Stderr: io.Discard},
		Progress: progress.NewPrinter(io.Discard, time.Now), Conn: &rsyncwire.Conn{Reader: strings.NewReader(""), Writer: &out}}
	st.SendFileList(dir, []string{"/"}, excl)
	es, _, _, _ := refDecodeList(out.Bytes(), refOpts{})
	got := map[string]bool{}
	for _, e := range es {
		got[string(e.name)] = true
	}
	// reference semantics
	want := func(p string, isDir bool) bool {
		active := rules
		for i, r := range rules {
			if r == "!" {
				active = rules[i+1:]
			}
		}
		parts := strings.Split(p, "/")
		for i := range parts {
			sub := strings.Join(parts[:i+1], "/")
			subIsDir := i < len(parts)-1 || isDir
			for _, r := range active {
				pat := strings.TrimPrefix(r, "- ")
				dirOnly := strings.HasSuffix(pat, "/")
				pat = strings.TrimSuffix(pat, "/")
				m := false
				if strings.HasPrefix(pat, "/") {
					m = "/"+sub == pat
				} else {
					m = parts[i] == pat
				}
				if m && (!dirOnly || subIsDir) {
					return false
				}
			}
		}
		return true
	}
	v := ""
	for _, e := range listing {
		if want(e.path, e.kind == 'd') != got[e.path] && v == "" {
			v = fmt.Sprintf("FAIL rule syntax %q is accepted but not honoured: entry %q listed=%v, rsync semantics say %v (D18)", rules, e.path, got[e.path], want(e.path, e.kind == 'd'))
		}
	}
	h.emit(op, "ok", v, true)
}
