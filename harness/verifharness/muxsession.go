//go:build verif

package main

// muxsession: the real client (maincmd.ClientRun, list-only mode, with the bufio size that is in
// the code) against a scripted server whose valid output is re-framed adversarially. Implementation
// level oracle of C17: the listing and the outcome must not depend on the framing; an error frame
// must surface as a failed run carrying the server's message.

import (
	"bytes"
	"encoding/binary"
	"fmt"
	"io"
	"strconv"
	"strings"
	"time"

	"github.com/gokrazy/rsync/internal/maincmd"
	"github.com/gokrazy/rsync/internal/rsyncopts"
	"github.com/gokrazy/rsync/internal/rsyncos"
)

func init() { suites["muxsession"] = suiteMuxSession }

type scriptedConn struct {
	r io.Reader
}

func (c *scriptedConn) Read(p []byte) (int, error)  { return c.r.Read(p) }
func (c *scriptedConn) Write(p []byte) (int, error) { return len(p), nil }

// runClientList runs ClientRun in list-only mode on a raw server byte stream.
func runClientList(args []string, stream []byte) (listing string, outcome string) {
	var stdout bytes.Buffer
	osenv := &rsyncos.Env{Stdout: &stdout, Stderr: io.Discard, DontRestrict: true}
	pc := rsyncopts.NewContext(rsyncopts.NewOptionsWithGokrazyDefaults(osenv))
	if err := pc.ParseArguments(osenv, args); err != nil {
		return "", "optserr:" + err.Error()
	}
	done := make(chan string, 1)
	go func() {
		defer func() {
			if r := recover(); r != nil {
				done <- fmt.Sprintf("panic:%v", r)
			}
		}()
		_, err := maincmd.ClientRun(osenv, pc.Options, &scriptedConn{r: bytes.NewReader(stream)}, []string{""}, false)
		if err != nil {
			done <- "err:" + err.Error()
		} else {
			done <- "ok"
		}
	}()
	select {
	case o := <-done:
		return stdout.String(), o
	case <-time.After(60 * time.Second):
		return stdout.String(), "timeout"
	}
}

// frameUp cuts payload into data frames by the policy, interleaving info frames.
func frameUp(payload []byte, sizes func() int, infoEvery int, rngInfo func() []byte) []byte {
	var out bytes.Buffer
	put := func(tag uint8, p []byte) {
		var hdr [4]byte
		binary.LittleEndian.PutUint32(hdr[:], uint32(7+uint32(tag))<<24|uint32(len(p)))
		out.Write(hdr[:])
		out.Write(p)
	}
	i := 0
	for len(payload) > 0 {
		n := sizes()
		if n > len(payload) {
			n = len(payload)
		}
		if infoEvery > 0 && i%infoEvery == 0 {
			put(2, rngInfo())
		}
		put(0, payload[:n])
		payload = payload[n:]
		i++
	}
	return out.Bytes()
}

func suiteMuxSession(h *H) {
	nSessions := h.n(4, 40)
	for s := 0; s < nSessions; s++ {
		// a valid server script: seed, then (multiplexed) file list, io error flag, the two phase
		// markers and the statistics
		o := refOpts{uid: h.rng.Intn(2) == 0, gid: h.rng.Intn(2) == 0, links: h.rng.Intn(2) == 0}
		ne := h.pick(0, 1, 5, 60, 400)
		if s == 0 {
			ne = 3000 // > 256 KiB of list, so that maximum-size frames are possible
		}
		es := genEntries(h, ne, o)
		var pay bytes.Buffer
		pay.Write(refEncodeList(es, o, h.rng, 0))
		wI32(&pay, -1)
		wI32(&pay, -1)
		wLong(&pay, 1234)
		wLong(&pay, 1<<33)
		wLong(&pay, 42)
		payload := pay.Bytes()
		args := []string{"-r"}
		if o.uid {
			args = append(args, "-o")
		}
		if o.gid {
			args = append(args, "-g")
		}
		if o.links {
			args = append(args, "-l")
		}
		args = append(args, "host::mod/")
		seed := []byte{1, 2, 3, 4}
		info := func() []byte { return []byte(strings.Repeat("i", h.rng.Intn(40))) }
		canon := append(append([]byte{}, seed...), frameUp(payload, func() int { return 4092 }, 0, nil)...)
		wantList, wantOut := runClientList(args, canon)
		desc := fmt.Sprintf("entries=%d opts=%s payload=%d", ne, o, len(payload))
		if wantOut != "ok" {
			h.emit("!muxsession canonical "+desc, wantOut, "FAIL canonical framing of a valid server script is not accepted: "+wantOut, true)
			continue
		}
		framings := []struct {
			name  string
			sizes func() int
			info  int
		}{
			{"1-byte", func() int { return 1 }, 0},
			{"1-7", func() int { return 1 + h.rng.Intn(7) }, 0},
			{"max", func() int { return 256 * 1024 }, 0},
			{"max-1", func() int { return 256*1024 - 1 }, 0},
			{"empty+small", func() int { return h.pick(0, 0, 0, 3, 100) }, 0},
			{"info-every", func() int { return h.pick(1, 5, 1000) }, 1},
			{"info-runs", func() int { return h.pick(2, 4096, 70000) }, 3},
			{"mid-integer", func() int { return h.pick(1, 2, 3, 5, 6, 7) }, 0},
		}
		for _, fr := range framings {
			if len(payload) > 400000 && (fr.name == "1-byte" || fr.name == "1-7" || fr.name == "mid-integer") && !h.thorough() {
				continue
			}
			infoEvery := fr.info
			stream := append(append([]byte{}, seed...), frameUp(payload, fr.sizes, infoEvery, info)...)
			gotList, gotOut := runClientList(args, stream)
			verdict := ""
			if gotOut != "ok" {
				verdict = "FAIL re-framed (" + fr.name + ") valid server stream: " + gotOut
			} else if gotList != wantList {
				verdict = "FAIL listing differs under re-framing " + fr.name
			}
			h.emit("!muxsession "+fr.name+" "+desc+" seed="+strconv.FormatInt(h.seed, 10), gotOut+" listing-bytes="+strconv.Itoa(len(gotList)), verdict, true)
			h.stat("muxsession." + fr.name)
		}
		// long runs of frames that carry no data (info frames, empty data frames) in front of data frames:
		// however many there are, the client must read on (a buffered reader gives up after 100 reads
		// that return nothing — the demultiplexer must never be read through one that does)
		if len(payload) < 200000 || h.thorough() {
			for _, kind := range []string{"info-run", "empty-run", "mixed-run"} {
				var out bytes.Buffer
				put := func(tag uint8, p []byte) {
					var hdr [4]byte
					binary.LittleEndian.PutUint32(hdr[:], uint32(7+uint32(tag))<<24|uint32(len(p)))
					out.Write(hdr[:])
					out.Write(p)
				}
				rest := payload
				for len(rest) > 0 {
					// data frames that end right in front of a single-byte field as often as possible
					n := h.pick(1, 2, 4, 5, 9, 40, 300)
					if n > len(rest) {
						n = len(rest)
					}
					if h.rng.Intn(3) == 0 {
						for k := h.pick(99, 100, 101, 130, 260); k > 0; k-- {
							switch {
							case kind == "info-run" || (kind == "mixed-run" && k%2 == 0):
								put(2, []byte("i"))
							default:
								put(0, nil)
							}
						}
					}
					put(0, rest[:n])
					rest = rest[n:]
				}
				stream := append(append([]byte{}, seed...), out.Bytes()...)
				gotList, gotOut := runClientList(args, stream)
				verdict := ""
				if gotOut != "ok" {
					verdict = "FAIL re-framed (" + kind + ": 99..260 frames without data in a row) valid server stream: " + gotOut
				} else if gotList != wantList {
					verdict = "FAIL listing differs under re-framing " + kind
				}
				h.emit("!muxsession "+kind+" "+desc+" seed="+strconv.FormatInt(h.seed, 10), gotOut+" listing-bytes="+strconv.Itoa(len(gotList)), verdict, true)
				h.stat("muxsession." + kind)
			}
		}
		// error frame at a random stage: must fail with the server's message
		cut := h.rng.Intn(len(payload)) // before a byte the client still needs: after the last one it may have finished
		msg := "gokr-rsync [sender]: something broke " + strconv.Itoa(s) + "\n"
		var st bytes.Buffer
		st.Write(seed)
		st.Write(frameUp(payload[:cut], func() int { return 1 + h.rng.Intn(5000) }, 0, nil))
		var hdr [4]byte
		binary.LittleEndian.PutUint32(hdr[:], uint32(7+1)<<24|uint32(len(msg)))
		st.Write(hdr[:])
		st.WriteString(msg)
		st.Write(frameUp(payload[cut:], func() int { return 4092 }, 0, nil))
		_, gotOut := runClientList(args, st.Bytes())
		verdict := ""
		if !strings.HasPrefix(gotOut, "err:") || !strings.Contains(gotOut, strings.TrimSpace(msg)) {
			verdict = "FAIL error frame after " + strconv.Itoa(cut) + " payload bytes did not surface as a failed transfer carrying the message: " + gotOut
		}
		h.emit("!muxsession errorframe@"+strconv.Itoa(cut)+" "+desc, strings.SplitN(gotOut, "\n", 2)[0], verdict, true)
		h.stat("muxsession.errorframe")
	}
}

// genEntries makes a sorted, valid list of entries with shared prefixes.
func genEntries(h *H, n int, o refOpts) []refEntry {
	var es []refEntry
	es = append(es, refEntry{name: []byte("."), mode: sIFDIR | 0o755, size: 4096, mtime: 1600000000})
	dir := ""
	for i := 0; i < n; i++ {
		if h.rng.Intn(6) == 0 {
			dir = fmt.Sprintf("dir%03d-%s", i, strings.Repeat("d", h.rng.Intn(30)))
			es = append(es, refEntry{name: []byte(dir), mode: sIFDIR | int32(h.pick(0o755, 0o700, 0o555)), size: 4096, mtime: int32(1500000000 + h.rng.Intn(1000))})
			continue
		}
		name := fmt.Sprintf("f%05d-%s", i, strings.Repeat("x", h.pick(0, 1, 10, 80, 200)))
		if dir != "" {
			name = dir + "/" + name
		}
		e := refEntry{name: []byte(name), mode: sIFREG | int32(h.pick(0o644, 0o600, 0o755)), size: int64(h.pick(0, 1, 700, 1<<31-1, 1<<31, 1<<40)), mtime: int32(h.pick(0, 1, 1600000000, -1, 1<<31-1))}
		if o.links && h.rng.Intn(5) == 0 {
			e.mode = sIFLNK | 0o777
			e.target = []byte(strings.Repeat("t", 1+h.rng.Intn(50)))
			e.size = int64(len(e.target))
		}
		if o.uid {
			e.uid = int32(h.pick(0, 1000, 65534))
		}
		if o.gid {
			e.gid = int32(h.pick(0, 1000, 65534))
		}
		es = append(es, e)
	}
	return es
}
