//go:build verif

package main

// delete: the real deleteFiles / findInFileList on real destination trees (C09).

import (
	"fmt"
	"io"
	"os"
	"path/filepath"
	"sort"
	"strings"
	"time"
	"unicode/utf8"

	"github.com/gokrazy/rsync/internal/log"
	"github.com/gokrazy/rsync/internal/progress"
	"github.com/gokrazy/rsync/internal/receiver"
	"github.com/gokrazy/rsync/internal/rsyncos"
	"github.com/gokrazy/rsync/internal/rsyncwire"
	"github.com/gokrazy/rsync/internal/sender"
	"golang.org/x/sys/unix"
)

func init() { suites["delete"] = suiteDelete }

type tEnt struct {
	path string // slash separated, relative
	kind byte   // d f l p
}

// listTree: pre-order, children sorted bytewise by name (independent of fs.WalkDir)
func listTree(root, rel string) []tEnt {
	dir := filepath.Join(root, rel)
	ents, err := os.ReadDir(dir)
	if err != nil {
		return nil
	}
	names := make([]string, 0, len(ents))
	kinds := map[string]byte{}
	for _, e := range ents {
		names = append(names, e.Name())
		switch {
		case e.IsDir():
			kinds[e.Name()] = 'd'
		case e.Type()&os.ModeSymlink != 0:
			kinds[e.Name()] = 'l'
		case e.Type().IsRegular():
			kinds[e.Name()] = 'f'
		default:
			kinds[e.Name()] = 'p'
		}
	}
	sort.Strings(names)
	var out []tEnt
	for _, n := range names {
		p := n
		if rel != "" {
			p = rel + "/" + n
		}
		out = append(out, tEnt{p, kinds[n]})
		if kinds[n] == 'd' {
			out = append(out, listTree(root, p)...)
		}
	}
	return out
}

func makeTree(root string, ents []tEnt) {
	for _, e := range ents {
		p := filepath.Join(root, e.path)
		os.MkdirAll(filepath.Dir(p), 0o755)
		switch e.kind {
		case 'd':
			os.MkdirAll(p, 0o755)
		case 'f':
			os.WriteFile(p, []byte(e.path), 0o644)
		case 'l':
			os.Symlink("target-of-"+filepath.Base(p), p)
		case 'p':
			unix.Mkfifo(p, 0o644)
		}
	}
}

func suiteDelete(h *H) {
	base, err := os.MkdirTemp("", "verif-del")
	if err != nil {
		panic(err)
	}
	defer os.RemoveAll(base)
	caseNo := 0
	run := func(ioerr int, dry bool, names []string, tree []tEnt, rules []string) {
		caseNo++
		dir := filepath.Join(base, fmt.Sprintf("d%d", caseNo))
		os.Mkdir(dir, 0o755)
		defer os.RemoveAll(dir)
		makeTree(dir, tree)
		before := listTree(dir, "")
		root, err := os.OpenRoot(dir)
		if err != nil {
			panic(err)
		}
		defer root.Close()
		topts := receiver.TransferOpts{DeleteMode: true, DryRun: dry, Server: true, InfoGTE: falseInfo, DebugGTE: falseDebug}
		rt := &receiver.Transfer{
			Logger: log.New(io.Discard), Opts: &topts, Dest: dir, DestRoot: root,
			Env:      &rsyncos.Env{Stdout: io.Discard, Stderr: io.Discard},
			Progress: progress.NewPrinter(io.Discard, time.Now),
			Conn:     &rsyncwire.Conn{Reader: strings.NewReader(""), Writer: io.Discard},
			IOErrors: int32(ioerr),
		}
		if len(rules) > 0 {
			if excl, err := sender.ParseFilterRules(rules); err == nil {
				rt.Protect = excl.Matches
			}
		}
		var fl []*receiver.File
		for _, n := range names {
			fl = append(fl, &receiver.File{Name: n})
		}
		receiver.VerifSortFileList(fl)
		var sorted []string
		for _, f := range fl {
			sorted = append(sorted, hx([]byte(f.Name)))
		}
		outcome := "ok"
		func() {
			defer func() {
				if r := recover(); r != nil {
					outcome = "panic"
				}
			}()
			if err := receiver.VerifDeleteFiles(rt, fl); err != nil {
				outcome = "err"
			}
		}()
		after := map[string]bool{}
		for _, e := range listTree(dir, "") {
			after[e.path] = true
		}
		// removed roots: vanished entries whose parent survived (or is the root), in listing order
		var removed []string
		for _, e := range before {
			if after[e.path] {
				continue
			}
			par := filepath.Dir(e.path)
			if par == "." || after[par] {
				removed = append(removed, hx([]byte(e.path)))
			}
		}
		// ---- oracle, from the property text: after success exactly the entries all of whose
		// ancestors-or-self are named in the list survive; nothing goes on I/O errors / dry run / no "."
		listed := map[string]bool{}
		hasTop := false
		for _, n := range names {
			listed[n] = true
			if n == "." {
				hasTop = true
			}
		}
		v := ""
		// known finding D26: a directory that is kept and whose path is not valid UTF-8 makes the walk abort
		d26 := false
		for _, e := range before {
			if e.kind == 'd' && !utf8.ValidString(e.path) {
				d26 = true
			}
		}
		for _, e := range before {
			want := true
			if ioerr == 0 && !dry && hasTop {
				// walking down from the root: the first component that is not in the list decides —
				// protected by an exclude rule: it and everything below stays; otherwise it goes
				var comps []string
				for p := e.path; p != "."; p = filepath.Dir(p) {
					comps = append([]string{p}, comps...)
				}
				for _, p := range comps {
					if !listed[p] {
						// decided by the entry's own name: every directory above it is in the list, i.e. was
						// not excluded by the sender (a list naming a directory its own rules exclude is not one
						// a sender with these rules produces; the rules are not applied to listed ancestors)
						want = excludedBy(rules, filepath.Base(p))
						break
					}
				}
			}
			if want != after[e.path] {
				if want {
					v = fmt.Sprintf("FAIL %q was removed although it (and every parent) is in the sender's list or deletion must not happen (ioerr=%d dry=%v top=%v)", e.path, ioerr, dry, hasTop)
				} else {
					v = fmt.Sprintf("FAIL extraneous entry %q survived --delete", e.path)
				}
				if d26 && outcome == "err" {
					v = "FAIL the delete walk aborted with an error: the destination contains a directory whose name is not valid UTF-8 (io/fs.ValidPath); " + v[5:]
				}
				break
			}
		}
		var tl []string
		for _, e := range before {
			k := "f"
			if e.kind == 'd' {
				k = "d"
			}
			tl = append(tl, hx([]byte(e.path))+":"+k)
		}
		j := func(x []string) string {
			if len(x) == 0 {
				return "-"
			}
			return strings.Join(x, ",")
		}
		d := 0
		if dry {
			d = 1
		}
		var rh []string
		for _, r := range rules {
			rh = append(rh, hx([]byte(r)))
		}
		op := fmt.Sprintf("delete %d %d %s %s %s", ioerr, d, j(sorted), j(tl), j(rh))
		impl := outcome + " " + j(removed)
		h.emit(op, impl, v, len(removed) > 0)
		h.stat(fmt.Sprintf("delete.removed=%d", min(len(removed), 5)))
	}
	if h.extra != nil {
		for _, op := range h.extra {
			f := strings.Fields(op)
			if f[0] != "delete" {
				continue
			}
			var io_, d int
			fmt.Sscan(f[1], &io_)
			fmt.Sscan(f[2], &d)
			var names []string
			if f[3] != "-" {
				for _, x := range strings.Split(f[3], ",") {
					names = append(names, string(unhx(x)))
				}
			}
			var tree []tEnt
			if f[4] != "-" {
				for _, x := range strings.Split(f[4], ",") {
					p := strings.SplitN(x, ":", 2)
					tree = append(tree, tEnt{string(unhx(p[0])), p[1][0]})
				}
			}
			var rules []string
			if len(f) > 5 && f[5] != "-" {
				for _, x := range strings.Split(f[5], ",") {
					rules = append(rules, string(unhx(x)))
				}
			}
			run(io_, d == 1, names, tree, rules)
		}
		return
	}
	// utf8.Valid model vs Go
	for i := 0; i < h.n(300, 5000); i++ {
		b := h.bytes(h.rng.Intn(6))
		for j := range b {
			if h.rng.Intn(2) == 0 {
				b[j] = byte(h.pick(0x7f, 0x80, 0xbf, 0xc0, 0xc1, 0xc2, 0xdf, 0xe0, 0xed, 0xef, 0xf0, 0xf4, 0xf5, 0xff, 0x9f, 0xa0, 0x8f, 0x90, 'a'))
			}
		}
		h.emit("utf8 "+hx(b), fmt.Sprintf("ok %v", utf8.Valid(b)), "", utf8.Valid(b) && len(b) > 1)
	}
	// (a) bounded-exhaustive: one directory with up to 4 names from a pool chosen so that listed and
	// extraneous names interleave in every sort position; each name listed or not, file or dir
	pool := []string{"a", "b", "b.x", "b0", "c", "d"}
	maxN := 3
	if h.thorough() {
		maxN = 4
	}
	var rec func(start int, chosen []string)
	rec = func(start int, chosen []string) {
		if len(chosen) > 0 {
			n := len(chosen)
			for mask := 0; mask < 1<<n; mask++ { // listed?
				for kmask := 0; kmask < 1<<n; kmask++ { // directory (with a child)?
					if !h.thorough() && kmask != 0 && kmask != (1<<n)-1 && kmask != 1 {
						continue
					}
					names := []string{"."}
					var tree []tEnt
					for i, c := range chosen {
						isDir := kmask>>i&1 == 1
						if isDir {
							tree = append(tree, tEnt{c, 'd'}, tEnt{c + "/k", 'f'}, tEnt{c + "/z", 'f'})
						} else {
							tree = append(tree, tEnt{c, 'f'})
						}
						if mask>>i&1 == 1 {
							names = append(names, c)
							if isDir {
								names = append(names, c+"/k")
							}
						}
					}
					run(0, false, names, tree, nil)
				}
			}
		}
		if len(chosen) == maxN {
			return
		}
		for i := start; i < len(pool); i++ {
			rec(i+1, append(append([]string{}, chosen...), pool[i]))
		}
	}
	rec(0, nil)
	// (b) random nested trees, all entry types, guards (io error flag, dry run, missing top dir)
	for i := 0; i < h.n(150, 3000); i++ {
		var tree []tEnt
		var names []string
		if h.rng.Intn(10) != 0 {
			names = append(names, ".")
		}
		var gen func(prefix string, depth int)
		gen = func(prefix string, depth int) {
			n := h.rng.Intn(5)
			for j := 0; j < n; j++ {
				name := []string{"a", "b", "c", "d", "e", "a.b", "a b", "\xff", "0", "zz"}[h.rng.Intn(10)]
				p := prefix + name
				dup := false
				for _, t := range tree {
					if t.path == p {
						dup = true
					}
				}
				if dup {
					continue
				}
				kind := []byte("fffdddlp")[h.rng.Intn(8)]
				tree = append(tree, tEnt{p, kind})
				if h.rng.Intn(2) == 0 {
					names = append(names, p)
				}
				if kind == 'd' && depth < 3 {
					gen(p+"/", depth+1)
				}
			}
		}
		gen("", 0)
		// names of entries that do not exist at the destination, too
		for k := h.rng.Intn(3); k > 0; k-- {
			names = append(names, []string{"new", "a/new", "zzz", "a.b/x"}[h.rng.Intn(4)])
		}
		ioerr := 0
		if h.rng.Intn(6) == 0 {
			// every value a sender can report (tridge ORs IOERR_GENERAL=1, IOERR_VANISHED=2, IOERR_DEL_LIMIT=4)
			ioerr = h.pick(1, 1, 2, 3, 4, 6, 7, 1<<20, 1<<31-1)
		}
		var rules []string
		if h.rng.Intn(3) == 0 {
			for k := 1 + h.rng.Intn(2); k > 0; k-- {
				nm := []string{"a", "b", "c", "d", "e", "a.b", "zz", "0"}[h.rng.Intn(8)]
				if h.rng.Intn(4) == 0 {
					rules = append(rules, "+ "+nm)
				} else {
					rules = append(rules, "- "+nm)
				}
			}
		}
		run(ioerr, h.rng.Intn(8) == 0, names, tree, rules)
	}
}
