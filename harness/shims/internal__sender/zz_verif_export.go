//go:build verif

package sender

// Export shim for the /verif correspondence harness (overlaid at build time, never committed to
// the repository). Re-exports only; no behaviour.

// VerifSendFiles runs the real SendFiles on a file list made of the given paths of src
// (already in sorted order; index i = paths[i]).
func VerifSendFiles(st *Transfer, src FileSource, paths []string, lengths []int64) error {
	fl := &fileList{}
	for i, p := range paths {
		fl.Files = append(fl.Files, file{source: src, path: p, Wpath: p, regular: true, Length: lengths[i]})
	}
	return st.SendFiles(fl)
}

var VerifGetStrip = getStrip

type VerifFilterRuleList = filterRuleList

func VerifMatches(l *filterRuleList, name string, isDir bool) bool { return l.matches(name, isDir) }

// VerifListNames returns the wire names of the entries the sender keeps for a file list it has sent,
// in the sender's own order (index i of a later request means entry i of this list).
func VerifListNames(fl *fileList) []string {
	var out []string
	for _, f := range fl.Files {
		out = append(out, f.Wpath)
	}
	return out
}
