//go:build verif

package receiver

// Export shim for the /verif correspondence harness (overlaid at build time, never committed to
// the repository). Re-exports only; no behaviour.

func VerifRecvFile1(rt *Transfer, f *File) error { return rt.recvFile1(f) }

func VerifDeleteFiles(rt *Transfer, fileList []*File) error { return rt.deleteFiles(fileList) }

func VerifRecvGenerator(rt *Transfer, idx int, f *File) error { return rt.recvGenerator(idx, f) }

func VerifTouchUpDirs(rt *Transfer, fileList []*File) error { return rt.touchUpDirs(fileList) }

func VerifRetouch(rt *Transfer) bool { return rt.retouchDirPerms }


var VerifSortFileList = sortFileList
