//go:build verif

package rsyncd

// Export shim for the /verif correspondence harness (overlaid at build time, never committed to
// the repository). Re-exports only; no behaviour.

