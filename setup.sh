#!/bin/bash
# Run once after a fresh restore, offline: builds the framework from files on disk only.
set -e
cd "$(dirname "$0")"
export GOFLAGS=-mod=mod GOPROXY=off
mkdir -p .work evidence replays
(cd tools/extract && go build -o ../../.work/extract .)
./.work/extract "${VERIF_REPO:-/repo}" lean/RsyncModel/Gen || true
# root module imports every model, lemma, property and generated module, so that one build checks everything
(cd lean && find RsyncModel -name "*.lean" | sort | sed -e "s/\.lean$//" -e "s#/#.#g" -e "s/^/import /" > RsyncModel.lean && lake build)
tools/buildharness.sh "${VERIF_REPO:-/repo}" .work/verifharness
python3 -c "import json; json.load(open('known_findings.json')); json.load(open('MANIFEST.json'))"
echo setup done
