#!/bin/bash
# tools/trymut.sh "<check ids>" <file> <python-regex> <replacement> : apply an ad-hoc textual mutation to /repo, build, run checks, revert
CHECKS=$1; F=$2; PAT=$3; REP=$4
cd /repo || exit 2
git diff --quiet || { echo "/repo has local changes"; exit 2; }
python3 - "$F" "$PAT" "$REP" <<'PY'
import re,sys
f,pat,rep=sys.argv[1:4]
s=open(f).read()
n=len(re.findall(pat,s,flags=re.S))
if n!=1: print("pattern matches",n,"times"); sys.exit(3)
open(f,'w').write(re.sub(pat,rep,s,count=1,flags=re.S))
PY
[ $? = 0 ] || { git checkout -- .; exit 3; }
GOFLAGS=-mod=mod GOPROXY=off go build ./... || { echo "MUTANT DOES NOT BUILD"; git checkout -- .; exit 4; }
for c in $CHECKS; do
  ( cd /verif && VERIF_NO_SEARCH=${NOSEARCH:-} timeout 3000 ./check $c 2>&1 | grep -v 'obligation FAILED: theorem' | cut -c1-400 | tail -${TAILN:-4} ; echo "== $c exit ${PIPESTATUS[0]}" )
done
git -C /repo checkout -- .
