#!/bin/bash
# Runs the repository's pinned baseline (guard off) and checks that all 81 stable tests pass.
# usage: tools/baseline.sh [repo dir]
REPO=${1:-/repo}
export GOFLAGS=-mod=mod GOPROXY=off
OUT=$(mktemp)
(cd "$REPO" && go test -mod=mod -json -vet=off -count=1 -timeout 25m ./... ) > "$OUT" 2>/dev/null
python3 - "$OUT" <<'PY'
import json,sys
want=set(json.load(open('/root/.vp/BASELINE.json'))['stable_pass'])
res={}
for l in open(sys.argv[1]):
    try: e=json.loads(l)
    except Exception: continue
    if e.get('Test') and e.get('Action') in('pass','fail','skip'):
        res[e['Package']+'::'+e['Test']]=e['Action']
bad=[t for t in sorted(want) if res.get(t)!='pass']
print(f"baseline: {len(want)-len(bad)}/{len(want)} stable tests pass; total pass={sum(1 for v in res.values() if v=='pass')} fail={sum(1 for v in res.values() if v=='fail')}")
for t in bad: print("  NOT PASSING:",t,res.get(t))
allfail=[t for t,v in res.items() if v=='fail']
for t in allfail: print("  FAIL:",t)
sys.exit(1 if bad else 0)
PY
rc=$?
rm -f "$OUT"
exit $rc
