#!/bin/bash
# tools/tryseed.sh <PROP> <seed dir with patch.diff> [check ids...]
# Applies a seeded change to /repo, runs the named checks (default: the property's own), reverts.
P=$1; D=$2; shift 2
CHECKS=${@:-$P}
cd /repo || exit 2
git diff --quiet || { echo "/repo has local changes"; exit 2; }
git apply "$D/patch.diff" || { echo "patch does not apply"; exit 2; }
# evidence files are rewritten by every run: keep the ones of the unchanged tree
rm -rf /verif/.work/evidence.keep && cp -r /verif/evidence /verif/.work/evidence.keep
for c in $CHECKS; do
  ( cd /verif && VERIF_REPO=/repo timeout 3000 ./check $c 2>&1 | grep -v 'obligation FAILED: theorem' | cut -c1-500 | tail -6 ; echo "== $c exit ${PIPESTATUS[0]}" )
done
git -C /repo checkout -- . && git -C /repo clean -fdq
rm -rf /verif/evidence && mv /verif/.work/evidence.keep /verif/evidence
