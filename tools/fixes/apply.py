#!/usr/bin/env python3
"""One-shot helper used while creating the fix: commits in /repo (kept for the record).
usage: apply.py <defect>  -- applies the edits for one defect to /repo working tree."""
import sys,re
R='/repo/'
def rep(path, old, new, count=1):
    p=R+path; s=open(p).read()
    if s.count(old)<1: raise SystemExit(f"{path}: pattern not found: {old[:60]!r}")
    if count and s.count(old)!=count: raise SystemExit(f"{path}: pattern count {s.count(old)} != {count}: {old[:60]!r}")
    open(p,'w').write(s.replace(old,new))
D={}
def d(name):
    def w(f): D[name]=f; return f
    return w

@d('D1')
def _():
    rep('internal/sender/match.go', """	if err != nil {
		return err
	}

	readSize := max(""", """	if err != nil {
		return err
	}
	if fi.Size() == 0 {
		// Nothing to search in (see rsync/match.c:match_sums):
		// send the (empty) file without any block matches.
		return st.sendFile(fileIndex, fl)
	}

	readSize := max(""")
@d('D2')
def _():
    rep('types.go', """		return fmt.Errorf("invalid remainder length %d", sh.RemainderLength)
	}
""", """		return fmt.Errorf("invalid remainder length %d", sh.RemainderLength)
	}
	if sh.ChecksumCount > 0 && sh.BlockLength == 0 {
		return fmt.Errorf("invalid block length %d for checksum count %d", sh.BlockLength, sh.ChecksumCount)
	}
""")
@d('D3')
def _():
    rep('internal/sender/sender.go', """		fl := fileList.Files[fileIndex]
""", """		if fileIndex < 0 || int(fileIndex) >= len(fileList.Files) {
			return fmt.Errorf("invalid file index %d (file list has %d entries)", fileIndex, len(fileList.Files))
		}
		fl := fileList.Files[fileIndex]
""")
    rep('internal/receiver/receiver.go', """			break
		}
		if rt.Opts.DebugGTE(rsyncopts.DEBUG_RECV, 1) {
			rt.Logger.Printf("receiving file idx""", """			break
		}
		if idx < 0 || int(idx) >= len(fileList) {
			return fmt.Errorf("invalid file index %d (file list has %d entries)", idx, len(fileList))
		}
		if rt.Opts.DebugGTE(rsyncopts.DEBUG_RECV, 1) {
			rt.Logger.Printf("receiving file idx""")
@d('D4')
def _():
    rep('internal/receiver/flist.go', "	if l2 >= PATH_MAX-l1 {", "	if l2 < 0 || l2 >= PATH_MAX-l1 {")
    rep('internal/receiver/flist.go', """		b := make([]byte, length)
""", """		if length < 0 || length >= PATH_MAX {
			return nil, fmt.Errorf("invalid symlink target length %d", length)
		}
		b := make([]byte, length)
""")
    rep('internal/sender/exclude.go', 'import (\n\t"io"', 'import (\n\t"fmt"\n\t"io"')
    rep('internal/sender/exclude.go', """		line := make([]byte, length)
""", """		// rsync/exclude.c:recv_filter_list rejects rules that do not fit BIGPATHBUFLEN
		if length < 0 || length >= 4096+1024 {
			return nil, fmt.Errorf("invalid filter rule length %d", length)
		}
		line := make([]byte, length)
""")
@d('D5')
def _():
    rep('internal/sender/exclude.go', """		l.addRule(fr)
	}
	return &l, nil""", """		l.addRule(fr)
		if fr.flag&filtruleWild != 0 {
			return nil, fmt.Errorf("wildcard filter rules not yet implemented: %q", line)
		}
	}
	return &l, nil""")
@d('D7')
def _():
    rep('rsyncd/rsyncd.go', """			defer conn.Close()
			c := NewConnection(""", """			defer conn.Close()
			defer func() {
				// A bug triggered by one peer must not take down the other sessions.
				if r := recover(); r != nil {
					s.logger.Printf("[%s] panic: %v", remoteAddr, r)
				}
			}()
			c := NewConnection(""")
@d('D8')
def _():
    rep('internal/receiver/do.go', """			return fs.SkipDir // skip the just-deleted directory
""", """			if info.IsDir() {
				return fs.SkipDir // skip the just-deleted directory
			}
			return nil
""")
@d('D11')
def _():
    rep('internal/receiver/generator.go', """	if rt.Opts.PreserveLinks && mode == rsync.S_IFLNK {
""", """	if rt.Opts.PreserveLinks && mode == rsync.S_IFLNK {
		if rt.Opts.DryRun {
			return nil
		}
""")
    rep('internal/receiver/generator.go', """		mode == rsync.S_IFIFO) {
""", """		mode == rsync.S_IFIFO) {
		if rt.Opts.DryRun {
			return nil
		}
""")
    rep('internal/receiver/generator.go', """	if !st.Mode().IsRegular() {
		// A non-regular file with this name exists. Delete it so that we can
""", """	if !st.Mode().IsRegular() {
		if rt.Opts.DryRun {
			return requestFullFile()
		}
		// A non-regular file with this name exists. Delete it so that we can
""")
@d('D12')
def _():
    rep('internal/sender/flist.go', """	if s.excl.matches(name) {
		return filepath.SkipDir
	}
""", """	if s.excl.matches(name) {
		if info.Mode().IsDir() {
			return filepath.SkipDir
		}
		return nil // returning SkipDir for a file would skip its remaining siblings
	}
""")
@d('D13')
def _():
    rep('internal/sender/exclude.go', """		if fr.matches(name) {
			return true
		}""", """		if fr.matches(name) {
			// the first matching rule decides; an include rule keeps the entry
			return fr.flag&filtruleInclude == 0
		}""")
@d('D15')
def _():
    rep('internal/receiver/flist.go', "	if rt.Opts.PreserveDevices && (isDev || isSpecial) {", "	if (rt.Opts.PreserveDevices && isDev) || (rt.Opts.PreserveSpecials && isSpecial) {")
    rep('internal/receiver/generator.go', """	if rt.Opts.PreserveDevices && (mode == rsync.S_IFCHR ||
		mode == rsync.S_IFBLK ||
		mode == rsync.S_IFSOCK ||
		mode == rsync.S_IFIFO) {
""", """	if (rt.Opts.PreserveDevices && (mode == rsync.S_IFCHR || mode == rsync.S_IFBLK)) ||
		(rt.Opts.PreserveSpecials && (mode == rsync.S_IFSOCK || mode == rsync.S_IFIFO)) {
""")
    rep('internal/rsyncopts/serveroptions.go', """	if o.PreserveDevices() {
		argstr += "D"
	}""", """	if o.PreserveDevices() && o.PreserveSpecials() {
		argstr += "D"
	}""")
    rep('internal/rsyncopts/serveroptions.go', """		sargv = append(sargv, argstr)
	}

""", """		sargv = append(sargv, argstr)
	}

	// -D is --devices --specials; send them individually if only one is set.
	if o.PreserveDevices() && !o.PreserveSpecials() {
		sargv = append(sargv, "--devices")
	} else if o.PreserveSpecials() && !o.PreserveDevices() {
		sargv = append(sargv, "--specials")
	}

""")
@d('D16')
def _():
    rep('internal/anonssh/anonssh.go', """	cfg   *rsyncdconfig.Config
	main  mainFunc
	osenv *rsyncos.Env
}""", """	cfg       *rsyncdconfig.Config
	main      mainFunc
	osenv     *rsyncos.Env
	anonymous bool // no authorized_keys configured: anybody can connect
}""")
    rep('internal/anonssh/anonssh.go', """		// 2021/09/12 21:25:34 cmdline: ["rsync" "--server" "--daemon" "."]
""", """		// 2021/09/12 21:25:34 cmdline: ["rsync" "--server" "--daemon" "."]
		if s.anonssh.anonymous &&
			(len(cmdline) < 3 || cmdline[1] != "--server" || cmdline[2] != "--daemon") {
			// Anonymous users may only speak the rsync daemon protocol with the
			// configured modules, not run arbitrary rsync command lines.
			return fmt.Errorf("anonymous SSH only permits rsync daemon mode (rsync --server --daemon .)")
		}
""")
    rep('internal/anonssh/anonssh.go', """		cfg:   cfg,
		main:  main,
		osenv: osenv,
	}""", """		cfg:       cfg,
		main:      main,
		osenv:     osenv,
		anonymous: listener.authorizedKeys == nil,
	}""")
@d('D17')
def _():
    rep('rsyncd/rsyncd.go', """	remoteIP := net.ParseIP(host)
""", """	if i := strings.IndexByte(host, '%'); i >= 0 {
		host = host[:i] // strip the IPv6 zone, net.ParseIP does not accept it
	}
	remoteIP := net.ParseIP(host)
""")
@d('D20')
def _():
    rep('internal/sender/flist.go', """	if path == "." {
		flags |= rsync.XMIT_TOP_DIR
	}""", """	if s.strip != "" && path+string(os.PathSeparator) == s.strip {
		// the requested directory itself (contents requested with a trailing slash)
		name = "."
	}
	if name == "." {
		flags |= rsync.XMIT_TOP_DIR
	}""")
D[sys.argv[1]]()
print("applied",sys.argv[1])
