#!/usr/bin/env python3
"""Writes MANIFEST.json from tools/props.py (claimed checks) and properties.jsonl (the rest is not_applicable with a reason)."""
import json, sys, os
sys.path.insert(0, os.path.dirname(__file__))
from props import PROPS, TRUSTED_BASE
V = os.path.dirname(os.path.dirname(os.path.abspath(__file__)))
ids = [json.loads(l)['id'] for l in open(os.path.join(V, 'properties.jsonl'))]
NA = {}
try:
    from props import NOT_APPLICABLE as NA
except ImportError:
    pass
checks = []
for pid in ids:
    if pid not in PROPS:
        continue
    c = PROPS[pid]
    checks.append({
        'property_id': pid,
        'quick_cmd': f'./check {pid} --tier quick',
        'thorough_cmd': f'./check {pid} --tier thorough',
        'evidence_file': f'evidence/{pid}.json',
        'replay_cmd_template': f'./check {pid} --replay {{path}}',
        'engine': 'lean-model',
        'level_claimed': {'category': 'proof', 'text': c['level_text'], 'design_ref': c.get('design_ref', 'DESIGN.md §6 ' + pid)},
        'level_note': c['level_note'],
        'technique': c.get('technique', 'Lean 4 theorems over a model tied to the source by regenerated facts (go/ast) and a differential correspondence harness'),
    })
m = {
    'version': 1,
    'setup_cmd': './setup.sh',
    'hooks': {
        'guard': 'verif',
        'enable': 'tools/buildharness.sh  # cd /repo && go build -tags verif -overlay /verif/.work/overlay.json ./internal/verifharness (harness and export shims are overlaid; nothing is written to /repo)',
        'baseline_off_cmd': 'cd /repo && GOFLAGS=-mod=mod go test -mod=mod -json -vet=off -count=1 -timeout 25m ./...',
        'source_commits': [],
        'add_only': True,
    },
    'engines': [
        {'name': 'lean-model', 'path': 'lean/', 'serves_properties': [c['property_id'] for c in checks], 'kind_free_text': 'Lean 4 model, lemma modules and property theorems (lake project, core Lean only); rsyncdriver = compiled model behind a line protocol'},
        {'name': 'go-extract', 'path': 'tools/extract/', 'serves_properties': [pid for pid in ids if pid in PROPS and PROPS[pid].get('gen')], 'kind_free_text': 'go/ast translator regenerating lean/RsyncModel/Gen/*.lean from /repo on every run'},
        {'name': 'go-harness', 'path': 'harness/', 'serves_properties': [c['property_id'] for c in checks], 'kind_free_text': 'Go correspondence harness compiled into /repo via overlay (build tag verif): runs the real code, emits op lines, implementation outputs and implementation-level oracle verdicts'},
    ],
    'checks': checks,
    'notes': 'Fix commits in /repo (unguarded, message starts with "fix:") are listed in known_findings.json as fixed entries. No hook commits: the harness is overlaid at build time.',
    'not_applicable': [{'property_id': pid, 'reason': NA.get(pid, 'check not built yet in this session (planned, see DESIGN.md §6)')} for pid in ids if pid not in PROPS],
}
json.dump(m, open(os.path.join(V, 'MANIFEST.json'), 'w'), indent=1)
print('MANIFEST.json:', len(checks), 'checks,', len(m['not_applicable']), 'not claimed')
