#!/bin/bash
# tools/verifyseed.sh <PROP> : confirm a sub-agent's seed (in /tmp/wt-<PROP>/SEED) on a fresh worktree of /repo HEAD:
# patch applies, builds, baseline 81/81, demo fails with the patch and passes without it.
P=$1; S=/tmp/wt-$P/SEED
export GOFLAGS=-mod=mod GOPROXY=off
[ -d /tmp/wtv ] || git -C /repo worktree add -q --detach /tmp/wtv HEAD
cd /tmp/wtv && git reset -q --hard "$(git -C /repo rev-parse HEAD)" && git clean -fdq
git apply "$S/patch.diff" || { echo "PATCH DOES NOT APPLY on current HEAD"; exit 1; }
go build ./... || { echo BUILD FAIL; exit 1; }
/verif/tools/baseline.sh /tmp/wtv | head -2
mkdir -p SEED && cp $S/* SEED/ && rm -f SEED/go.mod
cmd=$(python3 -c "import json; print(json.load(open('$S/meta.json'))['demo_cmd'])")
echo "--- demo with patch:"; (eval "$cmd") 2>&1 | grep -E '^(--- |FAIL|ok|PASS|panic)' | head -6
git checkout -q -- . ; git clean -fdq -e SEED
echo "--- demo without patch:"; (eval "$cmd") 2>&1 | grep -E '^(--- |FAIL|ok|PASS|panic)' | head -6
git clean -fdq
