"""Per-property configuration of /verif/check: theorem modules, regenerated tables used,
correspondence suites, and the texts that go into the evidence."""

TRUSTED_BASE = [
    "Lean 4.33.0 kernel (leanchecker re-check in the thorough tier); axioms allowed in property theorems: propext, Classical.choice, Quot.sound (audited with #print axioms on every run); no sorry/admit/native_decide/bv_decide/implemented_by/unsafe/added axioms (grep audit)",
    "tools/extract (go/ast translator, regenerates lean/RsyncModel/Gen/*.lean from /repo on every run; a missing anchor is a broken obligation)",
    "harness/verifharness (Go, compiled into /repo's module by overlay, tag verif) + Lean driver rsyncdriver (compiled model): differential correspondence, bounded by its generators",
    "Go compiler/runtime and standard library (bufio, io, net, os.Root, fs.WalkDir, sort) are modelled by their contracts, not verified",
]

PROPS = {
    'C17': dict(
        lean_modules=['RsyncModel.Properties.C17'],
        level_text="Proved in Lean for every frame list, byte stream, request size and buffer state: header/frame round trip (server frames carry tag and payload unchanged), the client's ReadFull returns exactly the next bytes of the concatenated data payloads whatever the frame boundaries and wherever info frames sit, and the reader's panic is unreachable because the regenerated constants satisfy clientBufSize >= maxMessageSize. Model tied to the code by regenerated constants and by the mux correspondence suite on the real bufio/MultiplexReader stack.",
        level_note="Trusted: Lean kernel; extractor (constants); bufio.Reader.Read contract (validated by the suite incl. buffer sizes where the panic is reachable); correspondence is differential testing. Error-frame surfacing and session-level re-framing are covered by the suite/oracle, not yet by a theorem.",
        gen=['Consts'],
        suites=['mux', 'muxsession'],
        rule="mux suite: random frame lists (data/info/error/unknown tags; payload sizes on and around 0, the bufio size and the 256 KiB limit), truncations, oversized headers and noise, read through the real io.ReadFull/bufio.Reader/MultiplexReader stack with request sizes below, at and above the buffer size; a case is non-trivial when at least one read succeeds; distinct = distinct op line. muxsession suite: the real maincmd.ClientRun (list-only) against a scripted valid server stream (reference-encoded file lists up to > 256 KiB) re-framed as 1-byte, 1-7-byte, maximum, maximum-1, empty+small, mid-integer frames and with info frames at every boundary and in runs; error frame at a random stage",
        assumptions=["bufio.Reader.Read calls the underlying Read once, with the caller's slice when it is at least the buffer size and with its internal buffer otherwise (validated by the mux suite, including buffer sizes where the panic is reachable)",
                     "'legal frame size' is the implementation's declared limit maxMessageSize (256 KiB); larger declared lengths are answered with an error, which the model states"],
    ),
    'C19': dict(
        lean_modules=['RsyncModel.Properties.C19'],
        gen=[],
        suites=['acl'],
        level_text="Proved in Lean for every rule list and address: access is granted iff no rule is decisive or the first decisive rule is a well-formed allow containing the address; a deny or malformed rule reached first never grants; rules after the first decisive one are irrelevant; empty list admits all; IPv4-mapped IPv6 addresses compare as IPv4 (IPNet.Contains modelled byte-wise). The model (rule splitting, action check, `all`, Contains incl. 4-in-6, first match) is tied to rsyncd.checkACL by a bounded-exhaustive correspondence (all rule lists of length 0..2 quick / 0..3 thorough over a 33-rule pool x 33 addresses), with net.ParseIP/ParseCIDR results shipped to the model.",
        level_note="Trusted: Lean kernel; net.SplitHostPort/ParseIP/ParseCIDR (their results are model inputs); the correspondence harness. The ordering 'ACL before @RSYNCD: OK' in HandleDaemonConn is checked by the daemon suite of C07/C06 when built, not by a theorem here.",
        rule="acl suite: bounded-exhaustive rule lists over a pool of allow/deny x {all, /0 /8 /16 /23 /24 /25 /32 v4, /0 /10 /32 /48 /128 v6, v4-mapped-in-v6 networks} and malformed rules x addresses on and around every prefix boundary incl. mapped, zoned and unparsable ones; non-trivial = at least one rule; the implementation-level oracle is an independent bitwise first-match reference",
        assumptions=["net.ParseIP returns the 16-byte form; net.ParseCIDR returns (network number, mask) as shipped; both are validated only through the suite"],
    ),
}
