"""Per-property configuration of /verif/check: theorem modules, regenerated tables used,
correspondence suites, and the texts that go into the evidence."""

TRUSTED_BASE = [
    "Lean 4.33.0 kernel (leanchecker re-check in the thorough tier); axioms allowed in property theorems: propext, Classical.choice, Quot.sound (audited with #print axioms on every run); no sorry/admit/native_decide/bv_decide/implemented_by/unsafe/added axioms (grep audit)",
    "tools/extract (go/ast translator, regenerates lean/RsyncModel/Gen/*.lean from /repo on every run; a missing anchor is a broken obligation)",
    "harness/verifharness (Go, compiled into /repo's module by overlay, tag verif) + Lean driver rsyncdriver (compiled model): differential correspondence, bounded by its generators",
    "Go compiler/runtime and standard library (bufio, io, net, os.Root, fs.WalkDir, sort) are modelled by their contracts, not verified",
]

PROPS = {
    'C17': dict(
        lean_modules=['RsyncModel.Properties.C17'],
        level_text="Proved in Lean for every frame list, byte stream, request size and buffer state: header/frame round trip (server frames carry tag and payload unchanged), the client's ReadFull returns exactly the next bytes of the concatenated data payloads whatever the frame boundaries and wherever info frames sit, and the reader's panic is unreachable because the regenerated constants satisfy clientBufSize >= maxMessageSize. Model tied to the code by regenerated constants and by the mux correspondence suite on the real bufio/MultiplexReader stack.",
        level_note="Trusted: Lean kernel; extractor (constants); bufio.Reader.Read contract (validated by the suite incl. buffer sizes where the panic is reachable); correspondence is differential testing. Error-frame surfacing and session-level re-framing are covered by the suite/oracle, not yet by a theorem.",
        gen=['Consts'],
        suites=['mux', 'muxsession'],
        rule="mux suite: random frame lists (data/info/error/unknown tags; payload sizes on and around 0, the bufio size and the 256 KiB limit), truncations, oversized headers and noise, read through the real io.ReadFull/bufio.Reader/MultiplexReader stack with request sizes below, at and above the buffer size; a case is non-trivial when at least one read succeeds; distinct = distinct op line. muxsession suite: the real maincmd.ClientRun (list-only) against a scripted valid server stream (reference-encoded file lists up to > 256 KiB) re-framed as 1-byte, 1-7-byte, maximum, maximum-1, empty+small, mid-integer frames and with info frames at every boundary and in runs; error frame at a random stage",
        assumptions=["bufio.Reader.Read calls the underlying Read once, with the caller's slice when it is at least the buffer size and with its internal buffer otherwise (validated by the mux suite, including buffer sizes where the panic is reachable)",
                     "'legal frame size' is the implementation's declared limit maxMessageSize (256 KiB); larger declared lengths are answered with an error, which the model states"],
    ),
    'C19': dict(
        lean_modules=['RsyncModel.Properties.C19'],
        gen=[],
        suites=['acl'],
        level_text="Proved in Lean for every rule list and address: access is granted iff no rule is decisive or the first decisive rule is a well-formed allow containing the address; a deny or malformed rule reached first never grants; rules after the first decisive one are irrelevant; empty list admits all; IPv4-mapped IPv6 addresses compare as IPv4 (IPNet.Contains modelled byte-wise). The model (rule splitting, action check, `all`, Contains incl. 4-in-6, first match) is tied to rsyncd.checkACL by a bounded-exhaustive correspondence (all rule lists of length 0..2 quick / 0..3 thorough over a 33-rule pool x 33 addresses), with net.ParseIP/ParseCIDR results shipped to the model.",
        level_note="Trusted: Lean kernel; net.SplitHostPort/ParseIP/ParseCIDR (their results are model inputs); the correspondence harness. The ordering 'ACL before @RSYNCD: OK' in HandleDaemonConn is checked by the daemon suite of C07/C06 when built, not by a theorem here.",
        rule="acl suite: bounded-exhaustive rule lists over a pool of allow/deny x {all, /0 /8 /16 /23 /24 /25 /32 v4, /0 /10 /32 /48 /128 v6, v4-mapped-in-v6 networks} and malformed rules x addresses on and around every prefix boundary incl. mapped, zoned and unparsable ones; non-trivial = at least one rule; the implementation-level oracle is an independent bitwise first-match reference",
        assumptions=["net.ParseIP returns the 16-byte form; net.ParseCIDR returns (network number, mask) as shipped; both are validated only through the suite"],
    ),
    'C02': dict(
        lean_modules=['RsyncModel.Properties.C02'],
        gen=['Consts'],
        suites=['checksum', 'search', 'recvdata'],
        level_text="Proved in Lean for every basis, target, header, signature list, chunking and flush policy (strong hashes are arbitrary functions): the Go-shaped sender loop (uint32 rolling pair, recompute-and-roll after a match, chunkSize cutting, early flush) refines a three-line greedy specification; every reference is justified by length, weak and truncated strong sum and the tokens cover the target exactly; Checksum1's 4-unrolled loop is the signed-char weak sum and the rolling update is exact; the receiver writes exactly what any token stream denotes; ReadAt offsets agree with the generator's block cut (ceil/mod arithmetic); and the full round trip sender->wire->receiver commits exactly the target against an honest signature (hypothesis: no truncated-strong-hash collision). The model is tied to the code by regenerated constants and by the checksum/search/recvdata correspondence suites (real SendFiles/hashSearch with harness-supplied signatures incl. layouts gokrazy never sends; real recvFile1 on scripted and damaged streams).",
        level_note="Trusted: Lean kernel; extractor (constants); correspondence harness. Modelled-not-verified Go-level details below the algorithm level: the sliding read window mapStruct.ptr, the tag-table sort, the `end` cut-off and the bytes fed to the whole-file hash are covered by the search suite (token-for-token equality with the model, trailer included, and an independent reconstruction oracle up to 1 MiB across several 256 KiB windows), not by a theorem. MD4 is an arbitrary function in every theorem; collision freedom is a stated hypothesis.",
        rule="checksum: all 256 one-byte buffers + random/sign-bit-heavy buffers through Checksum1 and MD4, SumSizesSqroot on squares +-1. search: bounded-exhaustive bases and targets over {a,b} (len<=4 quick, <=6 thorough) x block lengths 1..3(4), structured random edits of bases incl. periodic/zero/duplicate-block/weak-collision bases, strong lengths 2..16, odd remainders; large implementation-only cases crossing the 256 KiB window. recvdata: scripted token streams (any chunking/order), the real sender's streams, bit flips, truncations, reordered/substituted references, changed basis, hostile headers. non-trivial: stream contains a block reference (search) / file committed (recvdata)",
        assumptions=["file sizes < 2^52 (int32(math.Sqrt(float64 n)) = Nat.sqrt n; validated on m^2-1, m^2, m^2+1)", "no truncated strong-hash collision between a basis block and a different window of equal length (round trip only)"],
    ),
    'C16': dict(
        lean_modules=['RsyncModel.Properties.C16'],
        gen=['Consts'],
        suites=['search', 'deltaeff'],
        level_text="Proved in Lean for every context and choice function: a literal is sent only where no block matches the window at that byte (greedy completeness at every offset); an identical file is sent as references only (duplicate and short last blocks included); unmatched bytes in front of the scan cost exactly themselves and data shifted by an insertion of any length is found again (references only after the insertion); the Go-level rolling loop is that specification (refinement) and the rolling pair is the weak sum of the window at every loop head. Tied to the code by the search suite (token equality with the model; oracle: no literal where a block matches) and the deltaeff suite (literal-byte bound on high-entropy files with local edits).",
        level_note="edit_bound for k arbitrary edits is stated in DESIGN.md but proved only in the forms above (identical file; insertion in front; leftmost matching); the general bound 'edited bytes + 2(bl-1) per unchanged run' is checked by the deltaeff oracle on the implementation, not by a theorem. MD4 arbitrary.",
        rule="search as in C02; deltaeff: high-entropy files 8 KiB..2 MiB (thorough 16 MiB) with 0..6 insertions/deletions/replacements at unaligned offsets, prepends/appends, block permutations, real generator block sizes and others; oracle: literal bytes <= edited bytes + 2*bl per edit (+bl), identical => 0",
        assumptions=["high-entropy data: no spurious weak+strong match (hypothesis hno of shifted_data_found)"],
    ),
    'C03': dict(
        lean_modules=['RsyncModel.Properties.C03'],
        gen=['Consts', 'RecvOrder'],
        suites=['recvdata'],
        level_text="Proved in Lean over the receiver as a function of the raw byte stream (every stream, every basis): a commit implies that the 16 bytes after the token stream equal the whole-file hash of the reconstructed content; consequently a damaged stream that still carries the sender's trailer can only commit content with the same hash (equal content under second-preimage resistance); a wrong trailer is refused; there is no outcome other than commit-after-comparison or error. The regenerated RecvOrder facts pin the code shape the model stands for: in receiveData the only CloseAtomicallyReplace comes after `if !bytes.Equal(localSum, remoteSum) { return err }`, localSum is h.Sum of the MultiWriter(out,h) that receives every written byte, remoteSum is read from the connection. Tied dynamically by the recvdata suite (bit flips at every position for small streams, substituted/reordered references, truncations, changed basis).",
        level_note="MD4 second-preimage resistance is a hypothesis. Destination-unchanged-on-error is observed by the suite's oracle on the real file system (and is the subject of C04's event model).",
        rule="recvdata suite as in C02; oracle: success => committed content equals the intended target and hashes to a trailer present in the stream; error => destination byte-identical to before (or still absent) and no temporary file left",
        assumptions=["MD4(seed||.) second-preimage resistance where equality of content is concluded"],
    ),
}
