#!/usr/bin/env python3
"""tools/seedmeta.py <seed dir name> <caught_by> <checks_run> : update the record of what the checks made of a seeded change"""
import json,sys
d='/verif/seeded/'+sys.argv[1]+'/meta.json'
m=json.load(open(d)); m['caught_by']=sys.argv[2]; m['checks_run']=sys.argv[3]
json.dump(m,open(d,'w'),indent=1)
