#!/bin/bash
# tools/difft.sh <suite> [tier] [seed]: run one harness suite and diff implementation vs model (developer aid)
S=$1; T=${2:-quick}; SEED=${3:-1}
cd /verif/.work && ./verifharness -seed $SEED -tier $T $S > /tmp/difft.out || echo "harness rc=$?"
grep -c CASE /tmp/difft.out
awk -F'\t' '$1=="CASE" && $4!="-"' /tmp/difft.out | head -${ORACLE_N:-5} | cut -c1-600
awk -F'\t' '$1=="CASE" && substr($2,1,1)!="!"{print $2}' /tmp/difft.out > /tmp/difft.ops
awk -F'\t' '$1=="CASE" && substr($2,1,1)!="!"{print $3}' /tmp/difft.out > /tmp/difft.impl
/verif/lean/.lake/build/bin/rsyncdriver < /tmp/difft.ops > /tmp/difft.model
paste -d'\n' /tmp/difft.ops /tmp/difft.impl /tmp/difft.model | awk 'NR%3==1{op=$0} NR%3==2{i=$0} NR%3==0{ if(i!=$0){n++; if(n<=8){print "OP " substr(op,1,300); print " impl  " substr(i,1,300); print " model " substr($0,1,300)}}} END{print n+0" mismatches"}'
