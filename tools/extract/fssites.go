package main

// FsSites: every file-system call site of the receiving, sending and daemon packages, classified by
// *how it names its target* (through the traversal-safe root / through the FileSource / by raw path /
// fd-relative / on an already open handle), whether it mutates, and how it is guarded by dry-run and
// writability checks; plus the intra-package call sites needed to propagate guards.

import (
	"fmt"
	"go/ast"
	"go/token"
	"os"
	"path/filepath"
	"regexp"
	"sort"
	"strconv"
	"strings"
)

type fsSite struct {
	pkg, fn, callee, recv, arg0 string
	cls                          string
	mutating                     bool
	guard                        string // none | afterDryReturn | inDryBranch | elseOfDry
	writableChecked              bool   // dominated by `if !module.Writable { return … }` / inside `if mod.Writable {`
	line                         int
}

type callSite struct {
	pkg, caller, callee string
	guard               string
	line                int
}

var rootMethods = map[string]bool{"Open": true, "OpenFile": true, "Create": true, "Mkdir": true, "MkdirAll": true, "Remove": true, "RemoveAll": true,
	"Lstat": true, "Stat": true, "Chmod": true, "Chown": true, "Lchown": true, "Chtimes": true, "Readlink": true, "Symlink": true, "Rename": true,
	"Link": true, "OpenRoot": true, "FS": true, "ReadFile": true, "WriteFile": true}
var mutatingNames = map[string]bool{"Create": true, "Mkdir": true, "MkdirAll": true, "MkdirTemp": true, "Remove": true, "RemoveAll": true, "Chmod": true, "Chown": true,
	"Lchown": true, "Chtimes": true, "Symlink": true, "Rename": true, "Link": true, "WriteFile": true, "Mknodat": true, "Mkfifoat": true, "Mknod": true, "Mkfifo": true,
	"Bind": true, "Truncate": true, "CloseAtomicallyReplace": true, "newPendingFile": true, "symlink": true, "NewPendingFile": true, "SymlinkRoot": true,
	"Unlink": true, "Rmdir": true, "Utimes": true, "CreateTemp": true, "TempFile": true}
var rawPathFuncs = map[string]bool{"Open": true, "OpenFile": true, "Create": true, "Mkdir": true, "MkdirAll": true, "MkdirTemp": true, "Remove": true, "RemoveAll": true,
	"Rename": true, "Symlink": true, "Link": true, "Readlink": true, "Lstat": true, "Stat": true, "Chmod": true, "Chown": true, "Lchown": true, "Chtimes": true,
	"ReadFile": true, "WriteFile": true, "ReadDir": true, "Truncate": true, "OpenRoot": true, "DirFS": true, "CreateTemp": true,
	"Mknod": true, "Mkfifo": true, "Unlink": true, "Rmdir": true, "Utimes": true, "Walk": true, "WalkDir": true, "TempFile": true}

var reRoot = regexp.MustCompile(`(^|\.)(DestRoot|root|subRoot|Root)$`)
var reSource = regexp.MustCompile(`(^|\.)(source|Source)$`)
var reHandle = regexp.MustCompile(`^(in|out|f|localFile|parentDir|ms\.f|file)$`)

func mentionsDryRun(r *repo, e ast.Expr) (pos bool, ok bool) {
	s := r.src(e)
	if !strings.Contains(s, "DryRun") {
		return false, false
	}
	if u, isU := e.(*ast.UnaryExpr); isU && u.Op == token.NOT {
		return false, true
	}
	// a plain `x.DryRun` / `x.DryRun()` condition (conjunctions are not treated as guards)
	if strings.ContainsAny(s, "&|") {
		return false, false
	}
	return true, true
}

func endsInJump(b *ast.BlockStmt) bool {
	if len(b.List) == 0 {
		return false
	}
	switch s := b.List[len(b.List)-1].(type) {
	case *ast.ReturnStmt:
		return true
	case *ast.BranchStmt:
		return s.Tok == token.CONTINUE || s.Tok == token.BREAK
	}
	return false
}

type fsWalker struct {
	r      *repo
	pkg    string
	fn     string
	fns    map[string]bool
	sites  *[]fsSite
	calls  *[]callSite
	rootOf map[string]string // local variable -> "root"/"source" when assigned from X.FS()
}

func (w *fsWalker) classify(c *ast.CallExpr, guard string, wchk bool) {
	fn := w.r.src(c.Fun)
	line := w.r.fset.Position(c.Pos()).Line
	arg0 := ""
	if len(c.Args) > 0 {
		arg0 = w.r.src(c.Args[0])
	}
	add := func(cls string, mut bool, recv string) {
		*w.sites = append(*w.sites, fsSite{pkg: w.pkg, fn: w.fn, callee: fn, recv: recv, arg0: arg0, cls: cls, mutating: mut, guard: guard, writableChecked: wchk, line: line})
	}
	if id, ok := c.Fun.(*ast.Ident); ok {
		if w.fns[id.Name] {
			*w.calls = append(*w.calls, callSite{w.pkg, w.fn, id.Name, guard, line})
		}
		switch id.Name {
		case "newPendingFile", "symlink":
			cls := "rawPath"
			if reRoot.MatchString(arg0) {
				cls = "rootHelper"
			}
			add(cls, true, "")
		}
		return
	}
	sel, ok := c.Fun.(*ast.SelectorExpr)
	if !ok {
		return
	}
	recv := w.r.src(sel.X)
	name := sel.Sel.Name
	// method calls on the transfer object are intra-package calls
	if (recv == "rt" || recv == "st" || recv == "s" || recv == "ms" || recv == "l" || recv == "fr") && w.fns[name] {
		*w.calls = append(*w.calls, callSite{w.pkg, w.fn, name, guard, line})
		return
	}
	mut := mutatingNames[name]
	if name == "OpenFile" && len(c.Args) >= 2 {
		fl := w.r.src(c.Args[1])
		mut = strings.Contains(fl, "O_CREATE") || strings.Contains(fl, "O_WRONLY") || strings.Contains(fl, "O_RDWR") || strings.Contains(fl, "O_TRUNC") || strings.Contains(fl, "O_APPEND")
	}
	switch {
	case reRoot.MatchString(recv) && rootMethods[name]:
		add("viaRoot", mut, recv)
	case reSource.MatchString(recv) && (name == "Open" || name == "Readlink" || name == "FS"):
		add("viaSource", false, recv)
	case recv == "os" && rawPathFuncs[name], recv == "ioutil" && rawPathFuncs[name], recv == "filepath" && (name == "Walk" || name == "WalkDir"),
		(recv == "unix" || recv == "syscall") && rawPathFuncs[name], recv == "renameio" && rawPathFuncs[name]:
		add("rawPath", mut, recv)
	case recv == "renameio" && (name == "SymlinkRoot"):
		cls := "rawPath"
		if reRoot.MatchString(arg0) {
			cls = "rootHelper"
		}
		add(cls, true, recv)
	case recv == "renameio" && name == "NewPendingFile":
		cls := "rawPath"
		for _, a := range c.Args {
			if s := w.r.src(a); strings.HasPrefix(s, "renameio.WithRoot(") {
				cls = "rootHelper"
			}
		}
		add(cls, true, recv)
	case recv == "rsyncchecksum" && name == "RootChecksum":
		cls := "rawPath"
		if reRoot.MatchString(arg0) {
			cls = "rootHelper"
		}
		add(cls, false, recv)
	case recv == "unix" && (name == "Mknodat" || name == "Mkfifoat" || name == "Openat" || name == "Unlinkat" || name == "Fchmodat" || name == "Fchownat"):
		cls := "rawPath"
		if strings.Contains(arg0, "parentDir.Fd()") && len(c.Args) > 1 && w.r.src(c.Args[1]) == "base" {
			cls = "fdRelative"
		}
		add(cls, true, recv)
	case recv == "unix" && name == "Bind":
		add("procFdBind", true, recv)
	case recv == "fs" && name == "WalkDir":
		cls := "rawPath"
		if strings.HasSuffix(arg0, ".FS()") {
			x := strings.TrimSuffix(arg0, ".FS()")
			if reRoot.MatchString(x) {
				cls = "walkRoot"
			} else if reSource.MatchString(x) {
				cls = "walkSource"
			}
		}
		add(cls, false, recv)
	case reHandle.MatchString(recv) && (name == "Read" || name == "ReadAt" || name == "Write" || name == "Close" || name == "Stat" || name == "Seek" || name == "Fd" ||
		name == "Cleanup" || name == "CloseAtomicallyReplace" || name == "Name"):
		add("handle", name == "Write" || name == "CloseAtomicallyReplace", recv)
	}
}

func (w *fsWalker) exprCalls(n ast.Node, guard string, wchk bool) {
	if n == nil {
		return
	}
	ast.Inspect(n, func(x ast.Node) bool {
		switch c := x.(type) {
		case *ast.FuncLit:
			w.block(c.Body, guard, wchk)
			return false
		case *ast.CallExpr:
			w.classify(c, guard, wchk)
		}
		return true
	})
}

// block walks statements in order, tracking domination by dry-run early returns and writability checks.
func (w *fsWalker) block(b *ast.BlockStmt, guard string, wchk bool) {
	if b == nil {
		return
	}
	for _, st := range b.List {
		switch s := st.(type) {
		case *ast.IfStmt:
			if s.Init != nil {
				w.exprCalls(s.Init, guard, wchk)
			}
			w.exprCalls(s.Cond, guard, wchk)
			cond := w.r.src(s.Cond)
			pos, isDry := mentionsDryRun(w.r, s.Cond)
			switch {
			case isDry && pos:
				w.block(s.Body, "inDryBranch", wchk)
				if s.Else != nil {
					if eb, ok := s.Else.(*ast.BlockStmt); ok {
						w.block(eb, "elseOfDry", wchk)
					} else {
						w.exprCalls(s.Else, "elseOfDry", wchk)
					}
				} else if endsInJump(s.Body) && guard == "none" {
					guard = "afterDryReturn"
				}
			case isDry && !pos:
				w.block(s.Body, "elseOfDry", wchk)
				if s.Else != nil {
					w.exprCalls(s.Else, "inDryBranch", wchk)
				}
			case (cond == "!module.Writable" || cond == "!mod.Writable") && s.Else == nil && endsInJump(s.Body):
				w.block(s.Body, guard, wchk)
				wchk = true
			case cond == "module.Writable" || cond == "mod.Writable":
				w.block(s.Body, guard, true)
				if s.Else != nil {
					w.exprCalls(s.Else, guard, wchk)
				}
			default:
				w.block(s.Body, guard, wchk)
				if s.Else != nil {
					if eb, ok := s.Else.(*ast.BlockStmt); ok {
						w.block(eb, guard, wchk)
					} else if ei, ok := s.Else.(*ast.IfStmt); ok {
						w.block(&ast.BlockStmt{List: []ast.Stmt{ei}}, guard, wchk)
					}
				}
			}
		case *ast.ForStmt:
			w.exprCalls(s.Init, guard, wchk)
			w.exprCalls(s.Cond, guard, wchk)
			w.exprCalls(s.Post, guard, wchk)
			w.block(s.Body, guard, wchk)
		case *ast.RangeStmt:
			w.exprCalls(s.X, guard, wchk)
			w.block(s.Body, guard, wchk)
		case *ast.BlockStmt:
			w.block(s, guard, wchk)
		case *ast.SwitchStmt:
			w.exprCalls(s.Init, guard, wchk)
			w.exprCalls(s.Tag, guard, wchk)
			for _, cc := range s.Body.List {
				c := cc.(*ast.CaseClause)
				for _, e := range c.List {
					w.exprCalls(e, guard, wchk)
				}
				w.block(&ast.BlockStmt{List: c.Body}, guard, wchk)
			}
		case *ast.SelectStmt, *ast.TypeSwitchStmt, *ast.LabeledStmt:
			if l, ok := st.(*ast.LabeledStmt); ok {
				w.block(&ast.BlockStmt{List: []ast.Stmt{l.Stmt}}, guard, wchk)
			} else {
				w.exprCalls(st, guard, wchk)
			}
		default:
			w.exprCalls(st, guard, wchk)
		}
	}
}

func goFilesOf(root, dir string) []string {
	ents, _ := os.ReadDir(filepath.Join(root, dir))
	var out []string
	for _, e := range ents {
		n := e.Name()
		if !strings.HasSuffix(n, ".go") || strings.HasSuffix(n, "_test.go") || strings.HasSuffix(n, "_windows.go") || strings.HasSuffix(n, "_darwin.go") {
			continue
		}
		out = append(out, filepath.Join(dir, n))
	}
	sort.Strings(out)
	return out
}

func leanIdent(s string) string {
	return strings.Map(func(r rune) rune {
		if r >= 'a' && r <= 'z' || r >= 'A' && r <= 'Z' || r >= '0' && r <= '9' || r == '_' {
			return r
		}
		return '_'
	}, s)
}

func genFsSites(r *repo) string {
	var b strings.Builder
	b.WriteString("/-! GENERATED by /verif/tools/extract from internal/receiver, internal/sender, rsyncd — do not edit. -/\nnamespace Gen.FsSites\n\n")
	pkgs := []struct{ name, dir string }{{"receiver", "internal/receiver"}, {"sender", "internal/sender"}, {"rsyncd", "rsyncd"}}
	var sites []fsSite
	var calls []callSite
	fnNames := map[string][]string{}
	for _, p := range pkgs {
		files := goFilesOf(r.root, p.dir)
		if len(files) == 0 {
			r.fail("FsSites: no Go files in %s", p.dir)
		}
		fns := map[string]bool{}
		for _, f := range files {
			for _, d := range r.file(f).Decls {
				if fd, ok := d.(*ast.FuncDecl); ok {
					fns[fd.Name.Name] = true
				}
			}
		}
		for n := range fns {
			fnNames[p.name] = append(fnNames[p.name], n)
		}
		sort.Strings(fnNames[p.name])
		for _, f := range files {
			for _, d := range r.file(f).Decls {
				fd, ok := d.(*ast.FuncDecl)
				if !ok || fd.Body == nil {
					continue
				}
				w := &fsWalker{r: r, pkg: p.name, fn: fd.Name.Name, fns: fns, sites: &sites, calls: &calls}
				w.block(fd.Body, "none", false)
			}
		}
	}
	// function name enumerations (a renamed function changes the type: dependent theorems must be revisited)
	for _, p := range pkgs {
		fmt.Fprintf(&b, "inductive Fn_%s\n", p.name)
		for _, n := range fnNames[p.name] {
			fmt.Fprintf(&b, "  | %s\n", leanIdent(n))
		}
		b.WriteString("deriving DecidableEq, Repr\n\n")
		fmt.Fprintf(&b, "/-- functions callable from outside the package -/\ndef exported_%s : List Fn_%s := [", p.name, p.name)
		first := true
		for _, n := range fnNames[p.name] {
			if ast.IsExported(n) {
				if !first {
					b.WriteString(", ")
				}
				first = false
				fmt.Fprintf(&b, ".%s", leanIdent(n))
			}
		}
		b.WriteString("]\n\n")
	}
	b.WriteString("inductive Cls | viaRoot | viaSource | rawPath | fdRelative | rootHelper | handle | walkRoot | walkSource | procFdBind\nderiving DecidableEq, Repr\n\n")
	b.WriteString("inductive Guard | none | afterDryReturn | inDryBranch | elseOfDry\nderiving DecidableEq, Repr\n\n")
	for _, p := range pkgs {
		fmt.Fprintf(&b, "structure Site_%s where\n  fn : Fn_%s\n  cls : Cls\n  mutating : Bool\n  guard : Guard\n  writableChecked : Bool\n  calleeId : Nat\nderiving DecidableEq, Repr\n\n", p.name, p.name)
	}
	// callee ids: stable numbering by sorted callee text
	calleeSet := map[string]bool{}
	for _, s := range sites {
		calleeSet[s.callee] = true
	}
	var callees []string
	for c := range calleeSet {
		callees = append(callees, c)
	}
	sort.Strings(callees)
	cid := map[string]int{}
	b.WriteString("/-- callee numbering:")
	for i, c := range callees {
		cid[c] = i
		fmt.Fprintf(&b, " %d=%s", i, c)
	}
	b.WriteString(" -/\n")
	for _, c := range callees {
		fmt.Fprintf(&b, "def callee_%s : Nat := %d\n", leanIdent(c), cid[c])
	}
	b.WriteString("\n")
	for _, p := range pkgs {
		fmt.Fprintf(&b, "def sites_%s : List Site_%s := [\n", p.name, p.name)
		first := true
		for _, s := range sites {
			if s.pkg != p.name {
				continue
			}
			if !first {
				b.WriteString(",\n")
			}
			first = false
			fmt.Fprintf(&b, "  ⟨.%s, .%s, %v, .%s, %v, %d⟩  /- %s(%s) line %d -/", leanIdent(s.fn), s.cls, s.mutating, s.guard, s.writableChecked, cid[s.callee], s.callee, strings.ReplaceAll(s.arg0, "-/", ""), s.line)
		}
		b.WriteString("\n]\n\n")
		fmt.Fprintf(&b, "structure Call_%s where\n  caller : Fn_%s\n  callee : Fn_%s\n  guard : Guard\nderiving DecidableEq, Repr\n\n", p.name, p.name, p.name)
		fmt.Fprintf(&b, "def calls_%s : List Call_%s := [\n", p.name, p.name)
		first = true
		for _, c := range calls {
			if c.pkg != p.name {
				continue
			}
			if !first {
				b.WriteString(",\n")
			}
			first = false
			fmt.Fprintf(&b, "  ⟨.%s, .%s, .%s⟩", leanIdent(c.caller), leanIdent(c.callee), c.guard)
		}
		b.WriteString("\n]\n\n")
	}
	// raw-path sites with the text of their path argument, and — for the daemon's receive path — the
	// places where that path (rt.Dest) is assigned, in source order
	for _, p := range pkgs {
		fmt.Fprintf(&b, "def rawArgs_%s : List (String × String) := [", p.name)
		first := true
		for _, s := range sites {
			if s.pkg != p.name || s.cls != "rawPath" {
				continue
			}
			if !first {
				b.WriteString(", ")
			}
			first = false
			fmt.Fprintf(&b, "(%s, %s)", strconv.Quote(s.callee), strconv.Quote(s.arg0))
		}
		b.WriteString("]\n")
	}
	for _, p := range pkgs {
		set := map[string]bool{}
		for _, s := range sites {
			if s.pkg == p.name && (s.cls == "viaRoot" || s.cls == "viaSource") && s.arg0 != "" {
				set[s.arg0] = true
			}
		}
		var names []string
		for n := range set {
			names = append(names, n)
		}
		sort.Strings(names)
		fmt.Fprintf(&b, "def rootNameArgs_%s : List String := [", p.name)
		for i, n := range names {
			if i > 0 {
				b.WriteString(", ")
			}
			b.WriteString(strconv.Quote(n))
		}
		b.WriteString("]\n")
	}
	// where those names come from: they must be slash-clean (a trailing slash makes the kernel follow a final symlink)
	cleanFacts := []struct{ file, fn, want, name string }{
		{"internal/receiver/flist.go", "receiveFileEntry", "f.Name = filepath.Clean(string(b))", "receiverNameCleaned"},
		{"rsyncd/rsyncd.go", "handleConnReceiver", "subdir := filepath.Clean(strings.TrimPrefix(paths[0], \"/\"))", "daemonSubdirCleaned"},
		{"internal/sender/flist.go", "walk", "fs.WalkDir(s.source.FS(), filepath.Clean(rootname), s.walkFn)", "senderWalkRootCleaned"},
	}
	for _, cf := range cleanFacts {
		fd := r.funcDecl(cf.file, cf.fn)
		ok := fd != nil && strings.Contains(strings.Join(strings.Fields(r.src(fd)), " "), strings.Join(strings.Fields(cf.want), " "))
		fmt.Fprintf(&b, "def %s : Bool := %v\n", cf.name, ok)
	}
	// the two helpers that implement "data in progress lives in a temporary, the final name changes by rename"
	for _, hf := range []struct{ file, fn, name string }{
		{"internal/receiver/receiverrenameio.go", "newPendingFile", "newPendingFileBody"},
		{"internal/receiver/generatorsymlink.go", "symlink", "symlinkBody"},
	} {
		body := "missing"
		if fd := r.funcDecl(hf.file, hf.fn); fd != nil {
			body = strings.Join(strings.Fields(r.src(fd.Body)), " ")
		} else {
			r.fail("FsSites: %s not found in %s", hf.fn, hf.file)
		}
		fmt.Fprintf(&b, "def %s : String := %s\n", hf.name, strconv.Quote(body))
	}
	var destEv []string
	if fd := r.funcDecl("rsyncd/rsyncd.go", "handleConnReceiver"); fd != nil {
		ast.Inspect(fd, func(n ast.Node) bool {
			switch x := n.(type) {
			case *ast.KeyValueExpr:
				if r.src(x.Key) == "Dest" {
					destEv = append(destEv, "Dest: "+r.src(x.Value))
				}
			case *ast.AssignStmt:
				if len(x.Lhs) == 1 && r.src(x.Lhs[0]) == "rt.Dest" {
					destEv = append(destEv, "rt.Dest = "+r.src(x.Rhs[0]))
				}
			case *ast.CallExpr:
				f := r.src(x.Fun)
				if (f == "os.MkdirAll" || f == "os.OpenRoot") && len(x.Args) > 0 {
					destEv = append(destEv, f+"("+r.src(x.Args[0])+")")
				}
			}
			return true
		})
	} else {
		r.fail("FsSites: handleConnReceiver not found")
	}
	b.WriteString("def destEvents_rsyncd : List String := [")
	for i, e := range destEv {
		if i > 0 {
			b.WriteString(", ")
		}
		b.WriteString(strconv.Quote(e))
	}
	b.WriteString("]\n\n")
	b.WriteString("end Gen.FsSites\n")
	return b.String()
}

func init() {
	moreGens = append(moreGens, struct {
		name string
		f    func(*repo) string
	}{"FsSites", genFsSites})
}
