package main

// Pure: a translator from a small subset of Go — integer and byte-slice code without I/O — to
// Lean 4 definitions (lean/RsyncModel/Gen/Pure.lean). Whole functions or statement ranges
// ("fragments") of functions are translated; the hand-written module RsyncModel/PureTie.lean proves
// that each regenerated definition equals the hand model the property theorems are about, so the
// theorems are re-checked against what the source says now.
//
// Semantics of the translation (the trusted part, kept small and syntactic):
//   * uint8/16/32/64 and int8/16/32 are Lean's fixed-width types with Go's wrapping arithmetic;
//     `int` and `int64` are Lean `Int` (assumption: no 64-bit overflow — all values are lengths and
//     offsets of files); conversions T(e) are `T.ofInt` of the mathematical value (or the direct
//     `.toT` casts, which are the same function).
//   * on `Int`: `x & (2^k-1)` is `x % 2^k` and `x | (2^k-1)` is `x - x % 2^k + (2^k-1)` (two's
//     complement identities, valid for every integer); other masks are rejected; `<< c` is `* 2^c`,
//     `>> c` is floor division by 2^c; `/` and `%` are truncated (Int.tdiv/tmod) and panic on 0.
//   * []byte is `List UInt8` with len = cap; b[i], b[lo:hi], make, copy are total functions into
//     `Go.Res` (ok / err / panic): an index out of range is `panic`, `return …, err` is `err`.
//   * assignments become shadowing `let`s; `if` without return joins the assigned variables;
//     an `if` containing a return duplicates the continuation; loops become `Go.loop fuel cond body`
//     over the tuple of assigned variables, `fuel` given per loop in the item's configuration
//     (running out of fuel is `panic`, so a tie theorem also proves the fuel suffices).
//   * statements `if err != nil { … }` are dropped (the success path of I/O is what is modelled);
//     logging calls are dropped; anything else that is not understood fails the run.

import (
	"fmt"
	"go/ast"
	"go/token"
	"sort"
	"strings"
)

type pvar struct{ name, typ string }

type abstr struct{ lean, typ string }

type pureItem struct {
	name         string // Lean definition name
	file, fn     string
	from, to     string           // fragment: source-text prefixes of the first and last statement (same block)
	params       []pvar           // fragment: free variables; whole function: taken from the signature (+ extra)
	extra        []pvar           // additional parameters (abstracted environment)
	results      []string         // fragment: variables returned as a tuple
	fuel         []string         // Lean Nat expression per loop, in source order
	abstract     map[string]abstr // source text of an expression -> Lean text and Go type
	replace      map[string]repl  // source-text prefix of a statement -> Lean text to splice in, and the variables it assigns
	drop         []string         // source-text prefixes of statements to skip
	recv         *pvar            // method receiver override
	dropParams   []string
	extraResults []string           // variables returned in addition to the function's results
	seq          map[string][]abstr // source text of a call -> successive values, one per occurrence in source order
	writers      map[string]writer  // callee text of a one-argument call statement -> append to a byte-list variable
}

// writer: `callee(arg)` as a statement appends format(arg) to the byte list named buf
type writer struct {
	buf    string // the variable
	argTyp string // Go type the argument is translated at
	format string // Lean text with one %s for the translated argument
}

type repl struct {
	lean     string
	assigns  []string
	declares []pvar // variables the spliced text introduces (name, Go type)
}

type pureStruct struct{ file, name string }

var pureStructs = []pureStruct{
	{"internal/sender/fileio.go", "mapStruct"},
	{"types.go", "SumHead"},
}

var rfeAbstract = map[string]abstr{
	"[]byte(last.Name)": {"lastName", "[]byte"}, "last.ModTime": {"lastModTime", "int32"}, "last.Mode": {"lastMode", "int32"},
	"last.Uid": {"lastUid", "int32"}, "last.Gid": {"lastGid", "int32"}, "last.Rdev": {"lastRdev", "int32"},
	"rt.Opts.PreserveUid": {"preserveUid", "bool"}, "rt.Opts.PreserveGid": {"preserveGid", "bool"}, "rt.Opts.PreserveLinks": {"preserveLinks", "bool"},
	"rt.Opts.PreserveDevices": {"preserveDevices", "bool"}, "rt.Opts.PreserveSpecials": {"preserveSpecials", "bool"}, "rt.Opts.AlwaysChecksum": {"alwaysChecksum", "bool"},
	"f.Name": {"fName", "[]byte"}, "f.Length": {"fLength", "int64"}, "f.ModTime": {"fModTime", "int32"}, "f.Mode": {"fMode", "int32"},
	"f.Uid": {"fUid", "int32"}, "f.Gid": {"fGid", "int32"}, "f.Rdev": {"fRdev", "int32"}, "f.LinkTarget": {"fLinkTarget", "[]byte"},
	"filepath.Clean(string(b))": {"(PathClean.clean b)", "[]byte"}, "string(b)": {"b", "[]byte"},
	"time.Unix(int64(modTime), 0)": {"modTime", "int32"},
}

var rfeReplace = map[string]repl{
	"l, err := rt.Conn.ReadByte()":        {"Go.bind (Go.readByte inp) fun (l, inp) =>", []string{"inp"}, []pvar{{"l", "byte"}}},
	"l, err := rt.Conn.ReadInt32()":       {"Go.bind (Go.readI32 inp) fun (l, inp) =>", []string{"inp"}, []pvar{{"l", "int32"}}},
	"length, err := rt.Conn.ReadInt64()":  {"Go.bind (Gen.Pure.ReadInt64 inp) fun (length, inp) =>", []string{"inp"}, []pvar{{"length", "int64"}}},
	"length, err := rt.Conn.ReadInt32()":  {"Go.bind (Go.readI32 inp) fun (length, inp) =>", []string{"inp"}, []pvar{{"length", "int32"}}},
	"modTime, err := rt.Conn.ReadInt32()": {"Go.bind (Go.readI32 inp) fun (modTime, inp) =>", []string{"inp"}, []pvar{{"modTime", "int32"}}},
	"mode, err := rt.Conn.ReadInt32()":    {"Go.bind (Go.readI32 inp) fun (mode, inp) =>", []string{"inp"}, []pvar{{"mode", "int32"}}},
	"uid, err := rt.Conn.ReadInt32()":     {"Go.bind (Go.readI32 inp) fun (uid, inp) =>", []string{"inp"}, []pvar{{"uid", "int32"}}},
	"gid, err := rt.Conn.ReadInt32()":     {"Go.bind (Go.readI32 inp) fun (gid, inp) =>", []string{"inp"}, []pvar{{"gid", "int32"}}},
	"rdev, err := rt.Conn.ReadInt32()":    {"Go.bind (Go.readI32 inp) fun (rdev, inp) =>", []string{"inp"}, []pvar{{"rdev", "int32"}}},
	// readb aliases the tail of b (b itself, or b[l1:]): what is read into it lands in b
	"if _, err := io.ReadFull(rt.Conn.Reader, readb)":         {"Go.bind (Go.readFull inp (readb.length : Int)) fun (readb, inp) =>\nlet b := b.take (b.length - readb.length) ++ readb;", []string{"b", "readb", "inp"}, nil},
	"if _, err := io.ReadFull(rt.Conn.Reader, b)":             {"Go.bind (Go.readFull inp (b.length : Int)) fun (b, inp) =>", []string{"b", "inp"}, nil},
	"if _, err := io.ReadFull(rt.Conn.Reader, f.Checksum[:])": {"Go.bind (Go.readFull inp 16) fun (fChecksum, inp) =>", []string{"fChecksum", "inp"}, nil},
}

var pureItems = []pureItem{
	{name: "Tag2", file: "internal/rsyncchecksum/rsyncchecksum.go", fn: "Tag2"},
	{name: "Tag", file: "internal/rsyncchecksum/rsyncchecksum.go", fn: "Tag"},
	{name: "SignExtend", file: "internal/rsyncchecksum/rsyncchecksum.go", fn: "SignExtend"},
	{name: "Checksum1", file: "internal/rsyncchecksum/rsyncchecksum.go", fn: "Checksum1",
		fuel: []string{"buf.length", "buf.length"}},
	{name: "alignedLength", file: "internal/sender/fileio.go", fn: "alignedLength"},
	{name: "alignedOvershoot", file: "internal/sender/fileio.go", fn: "alignedOvershoot"},
	{name: "mapFileReadSize", file: "internal/sender/fileio.go", fn: "mapFile",
		from: "if blkSize > 0 && readSize%blkSize != 0", to: "if blkSize > 0 && readSize%blkSize != 0",
		params: []pvar{{"readSize", "int32"}, {"blkSize", "int32"}}, results: []string{"readSize"}},
	{name: "ptr", file: "internal/sender/fileio.go", fn: "ptr",
		extra:   []pvar{{"file", "[]byte"}},
		replace: map[string]repl{"for readSize > 0": {"Go.bind (Go.readLoop file ms.window ms.pFdOffset readOffset readSize) fun (w, fdo) =>\nlet ms := { ms with window := w, pFdOffset := fdo };", []string{"ms"}, nil}},
	},
	// the rolling update of the weak checksum in hashSearch
	{name: "rollUpdate", file: "internal/sender/match.go", fn: "hashSearch",
		from: "s1 -= rsyncchecksum.SignExtend(update[0])", to: "s2 = uint32(uint16(s2))",
		params:  []pvar{{"s1", "uint32"}, {"s2", "uint32"}, {"k", "int"}, {"update", "[]byte"}, {"more", "bool"}},
		results: []string{"s1", "s2", "k"}},
	// window length at the current offset (readChunk)
	{name: "chunkLen", file: "internal/sender/match.go", fn: "hashSearch",
		from: "k = int(head.BlockLength)", to: "if remaining := int(fi.Size() - offset); remaining < k",
		params:   []pvar{{"blockLength", "int32"}, {"size", "int64"}, {"offset", "int64"}, {"k", "int"}},
		abstract: map[string]abstr{"head.BlockLength": {"blockLength", "int32"}, "fi.Size()": {"size", "int64"}},
		results:  []string{"k"}},
	// halves of the weak sum (readChunk)
	{name: "sumHalves", file: "internal/sender/match.go", fn: "hashSearch",
		from: "s1 = uint32(sum & 0xFFFF)", to: "s2 = uint32(sum >> 16)",
		params: []pvar{{"sum", "uint32"}, {"s1", "uint32"}, {"s2", "uint32"}}, results: []string{"s1", "s2"}},
	// the packed weak sum compared with Sum1
	{name: "packSum", file: "internal/sender/match.go", fn: "hashSearch",
		from: "sum = (uint32(s1) & 0xFFFF) | (uint32(s2) << 16)", to: "sum = (uint32(s1) & 0xFFFF) | (uint32(s2) << 16)",
		params: []pvar{{"s1", "uint32"}, {"s2", "uint32"}, {"sum", "uint32"}}, results: []string{"sum"}},
	// candidate length at the current offset
	{name: "candLen", file: "internal/sender/match.go", fn: "hashSearch",
		from: "l := int64(head.BlockLength)", to: "if v := fi.Size() - offset; v < l",
		params:   []pvar{{"blockLength", "int32"}, {"size", "int64"}, {"offset", "int64"}},
		abstract: map[string]abstr{"head.BlockLength": {"blockLength", "int32"}, "fi.Size()": {"size", "int64"}},
		results:  []string{"l"}},
	// early flush of the pending literal run
	{name: "flushCond", file: "internal/sender/match.go", fn: "hashSearch",
		from: "if backup >= ", to: "if backup >= ",
		params:   []pvar{{"backup", "int64"}, {"blockLength", "int32"}, {"end", "int64"}, {"offset", "int64"}, {"flush", "bool"}},
		abstract: map[string]abstr{"head.BlockLength": {"blockLength", "int32"}},
		replace:  map[string]repl{"if err := st.matched(": {"let flush := true;", []string{"flush"}, nil}},
		results:  []string{"flush"}},
	// receiver: where a block reference reads from and how long
	{name: "refSpan", file: "internal/receiver/receiver.go", fn: "receiveData",
		from: "token = -(token + 1)", to: "if token == sh.ChecksumCount-1 && sh.RemainderLength != 0",
		params: []pvar{{"token", "int32"}, {"checksumCount", "int32"}, {"blockLength", "int32"}, {"remainderLength", "int32"}},
		abstract: map[string]abstr{"sh.ChecksumCount": {"checksumCount", "int32"}, "sh.BlockLength": {"blockLength", "int32"},
			"sh.RemainderLength": {"remainderLength", "int32"}},
		results: []string{"token", "offset2", "dataLen"}},
	// sender: length of block i as receiveSums assigns it
	{name: "sumLen", file: "internal/sender/sender.go", fn: "receiveSums",
		from: "if i == head.ChecksumCount-1 && head.RemainderLength != 0", to: "if i == head.ChecksumCount-1 && head.RemainderLength != 0",
		params: []pvar{{"i", "int32"}, {"checksumCount", "int32"}, {"blockLength", "int32"}, {"remainderLength", "int32"}, {"sbLen", "int64"}},
		abstract: map[string]abstr{"head.ChecksumCount": {"checksumCount", "int32"}, "head.BlockLength": {"blockLength", "int32"},
			"head.RemainderLength": {"remainderLength", "int32"}, "sb.Len": {"sbLen", "int64"}},
		results: []string{"sbLen"}},
	// the checksum header validation (types.go): the four reads are parameters
	{name: "SumHeadReadFrom", file: "types.go", fn: "SumHead.ReadFrom",
		seq:        map[string][]abstr{"c.ReadInt32()": {{"r0", "int32"}, {"r1", "int32"}, {"r2", "int32"}, {"r3", "int32"}}},
		extra:      []pvar{{"r0", "int32"}, {"r1", "int32"}, {"r2", "int32"}, {"r3", "int32"}},
		dropParams: []string{"c"}},
	// the update rule (generator.go): every input of skipFile is a parameter
	{name: "modTimeEqual", file: "internal/receiver/generator.go", fn: "modTimeEqual",
		dropParams: []string{"a", "b"}, extra: []pvar{{"a", "int64"}, {"b", "int64"}},
		abstract: map[string]abstr{"a.Truncate(time.Second)": {"(Go.truncSec a)", "int64"}, "b.Truncate(time.Second)": {"(Go.truncSec b)", "int64"},
			"a.Equal(b)": {"(a == b)", "bool"}}},
	{name: "skipFile", file: "internal/receiver/generator.go", fn: "skipFile",
		dropParams: []string{"rt", "f", "st"},
		extra: []pvar{{"dsize", "int64"}, {"fsize", "int64"}, {"alwaysChecksum", "bool"}, {"ignoreTimes", "bool"}, {"sumEqual", "bool"},
			{"dsum", "[]byte"}, {"dmtime", "int64"}, {"fmtime", "int64"}},
		abstract: map[string]abstr{"st.Size()": {"dsize", "int64"}, "f.Length": {"fsize", "int64"}, "rt.Opts.AlwaysChecksum": {"alwaysChecksum", "bool"},
			"rt.Opts.IgnoreTimes": {"ignoreTimes", "bool"}, "bytes.Equal(f.Checksum[:], checksum[:])": {"sumEqual", "bool"},
			"modTimeEqual(st.ModTime(), f.ModTime)": {"(Gen.Pure.modTimeEqual dmtime fmtime)", "bool"}},
		seq: map[string][]abstr{"rsyncchecksum.RootChecksum(rt.DestRoot, f.Name)": {{"dsum", "[]byte"}}}},
	// --delete is skipped when the sender reported I/O errors (receiver/do.go)
	{name: "deleteGuard", file: "internal/receiver/do.go", fn: "deleteFiles",
		from: "if rt.IOErrors > 0", to: "if rt.IOErrors > 0",
		params:   []pvar{{"ioErrors", "int32"}, {"skip", "bool"}},
		abstract: map[string]abstr{"rt.IOErrors": {"ioErrors", "int32"}},
		replace:  map[string]repl{"return nil": {"let skip := true;", []string{"skip"}, nil}},
		results:  []string{"skip"}},
	// what matched() hashes and where the next unmatched run starts (match.go)
	{name: "matchedSpan", file: "internal/sender/match.go", fn: "matched",
		from: "n := offset - st.lastMatch", to: "~st.lastMatch = offset + head.Sums[i].Len",
		params:   []pvar{{"offset", "int64"}, {"i", "int32"}, {"lastMatch", "int64"}, {"sumLen", "int64"}},
		abstract: map[string]abstr{"st.lastMatch": {"lastMatch", "int64"}, "head.Sums[i].Len": {"sumLen", "int64"}},
		drop:     []string{"if err := st.sendToken(", "for j := int64(0); j < n; j += chunkSize"},
		results:  []string{"n", "lastMatch"}},
	// token.go simpleSendToken: the literal run cut into chunks, then the token; writes go to a log
	{name: "sendToken", file: "internal/sender/token.go", fn: "simpleSendToken",
		from: "if n > 0", to: "if token != -2",
		params:   []pvar{{"token", "int32"}, {"offset", "int64"}, {"n", "int64"}, {"file", "[]byte"}, {"out", "[]out"}},
		fuel:     []string{"n.toNat"},
		abstract: map[string]abstr{"ms.ptr(offset+l, int32(n1))": {"(Go.fileSlice file (offset + l) n1)", "[]byte"}},
		replace: map[string]repl{
			"if err := st.Conn.WriteInt32(int32(n1))":  {"let out := out ++ [Go.Out.i32 (Int32.ofInt n1)];", []string{"out"}, nil},
			"if _, err := st.Conn.Writer.Write(chunk)": {"let out := out ++ [Go.Out.bytes chunk];", []string{"out"}, nil},
			"return st.Conn.WriteInt32(-(token + 1))":  {"let out := out ++ [Go.Out.i32 (-(token + 1))];", []string{"out"}, nil}},
		results: []string{"out"}},
	// receiver/token.go recvToken: the connection's input is a byte list that is consumed
	{name: "recvToken", file: "internal/receiver/token.go", fn: "recvToken",
		dropParams: []string{"rt"}, extra: []pvar{{"inp", "[]byte"}}, extraResults: []string{"inp"},
		replace: map[string]repl{
			"token, err = rt.Conn.ReadInt32()":               {"Go.bind (Go.readI32 inp) fun (token, inp) =>", []string{"token", "inp"}, nil},
			"if _, err := io.ReadFull(rt.Conn.Reader, data)": {"Go.bind (Go.readFull inp (data.length : Int)) fun (data, inp) =>", []string{"data", "inp"}, nil}}},
	// receiver.go receiveData: the token loop — literals are written as they come, a reference copies a block of the basis
	{name: "recvLoop", file: "internal/receiver/receiver.go", fn: "receiveData",
		from: "offset := 0", to: "for {",
		params: []pvar{{"inp", "[]byte"}, {"basis", "[]byte"}, {"hasBasis", "bool"}, {"checksumCount", "int32"}, {"blockLength", "int32"}, {"remainderLength", "int32"}, {"written", "[]byte"}},
		fuel:   []string{"inp.length + 1"},
		abstract: map[string]abstr{"sh.ChecksumCount": {"checksumCount", "int32"}, "sh.BlockLength": {"blockLength", "int32"},
			"sh.RemainderLength": {"remainderLength", "int32"}},
		drop: []string{"if rt.Opts.Progress && !rt.Opts.Server"},
		replace: map[string]repl{
			"token, data, err := rt.recvToken()":           {"Go.bind (Gen.Pure.recvToken inp) fun (token, data, inp) =>", []string{"inp"}, []pvar{{"token", "int32"}, {"data", "[]byte"}}},
			"n, err := wr.Write(data)":                     {"let written := written ++ data;\nlet n : Int := (data.length : Int);", []string{"written"}, []pvar{{"n", "int"}}},
			"if localFile == nil":                          {"Go.bind (if hasBasis then Go.Res.ok () else Go.Res.err) fun _ =>", nil, nil},
			"if _, err := localFile.ReadAt(data, offset2)": {"Go.bind (Go.readAt basis offset2 (data.length : Int)) fun data =>", []string{"data"}, nil}},
		results: []string{"written", "inp"}},
	// peer-facing readers, input as a consumed byte list (C08: no input makes them panic)
	{name: "recvIdLoop", file: "internal/receiver/uidlist.go", fn: "recvIdMapping1",
		from: "for {", to: "for {",
		params: []pvar{{"inp", "[]byte"}, {"out", "[]out"}}, fuel: []string{"inp.length + 1"},
		replace: map[string]repl{
			"id, err := rt.Conn.ReadInt32()":                 {"Go.bind (Go.readI32 inp) fun (id, inp) =>", []string{"inp"}, []pvar{{"id", "int32"}}},
			"length, err := rt.Conn.ReadByte()":              {"Go.bind (Go.readByte inp) fun (length, inp) =>", []string{"inp"}, []pvar{{"length", "byte"}}},
			"if _, err := io.ReadFull(rt.Conn.Reader, name)": {"Go.bind (Go.readFull inp (name.length : Int)) fun (name, inp) =>", []string{"inp"}, nil},
			"idMapping[id] = mapping{":                       {"let out := out ++ [Go.Out.i32 id, Go.Out.bytes name];", []string{"out"}, nil}},
		results: []string{"out", "inp"}},
	{name: "recvFilterLoop", file: "internal/sender/exclude.go", fn: "RecvFilterList",
		from: "for {", to: "for {",
		params: []pvar{{"inp", "[]byte"}, {"out", "[]out"}}, fuel: []string{"inp.length + 1"},
		replace: map[string]repl{
			"length, err := c.ReadInt32()":             {"Go.bind (Go.readI32 inp) fun (length, inp) =>", []string{"inp"}, []pvar{{"length", "int32"}}},
			"if _, err := io.ReadFull(c.Reader, line)": {"Go.bind (Go.readFull inp (line.length : Int)) fun (line, inp) =>", []string{"inp"}, nil},
			"fr, err := parseFilter(string(line))":     {"let out := out ++ [Go.Out.bytes line];", []string{"out"}, nil}},
		drop:    []string{"l.addRule(fr)", "if fr.flag&filtruleWild != 0", "if fr.flag&filtruleClearList != 0"},
		results: []string{"out", "inp"}},
	{name: "ReadMsg", file: "internal/rsyncwire/wire.go", fn: "ReadMsg",
		dropParams: []string{"w"}, extra: []pvar{{"inp", "[]byte"}}, extraResults: []string{"inp"},
		replace: map[string]repl{
			"if err := binary.Read(w.Reader, binary.LittleEndian, &header)": {"Go.bind (Go.readU32 inp) fun (header, inp) =>", []string{"header", "inp"}, nil},
			"if _, err := io.ReadFull(w.Reader, p)":                         {"Go.bind (Go.readFull inp (p.length : Int)) fun (p, inp) =>", []string{"p", "inp"}, nil}}},
	// wire: the 64-bit read (a 32-bit value unless it is -1), input as a consumed byte list
	{name: "ReadInt64", file: "internal/rsyncwire/wire.go", fn: "Conn.ReadInt64",
		dropParams: []string{"c"}, extra: []pvar{{"inp", "[]byte"}}, extraResults: []string{"inp"},
		replace: map[string]repl{
			"data, err := c.ReadInt32()":                                  {"Go.bind (Go.readI32 inp) fun (data, inp) =>", []string{"inp"}, []pvar{{"data", "int32"}}},
			"if err := binary.Read(c.Reader, binary.LittleEndian, &data)": {"Go.bind (Go.readI64 inp) fun (data, inp) =>", []string{"data", "inp"}, nil}}},
	// receiver/flist.go receiveFileEntry: one file-list entry read from the wire; the entry under construction and
	// the previous entry are their fields; the connection's input is a byte list that is consumed
	{name: "receiveFileEntry", file: "internal/receiver/flist.go", fn: "receiveFileEntry",
		from: "var l1 int", to: "if rt.Opts.AlwaysChecksum",
		params: []pvar{{"flags", "uint16"}, {"inp", "[]byte"},
			{"lastName", "[]byte"}, {"lastModTime", "int32"}, {"lastMode", "int32"}, {"lastUid", "int32"}, {"lastGid", "int32"}, {"lastRdev", "int32"},
			{"preserveUid", "bool"}, {"preserveGid", "bool"}, {"preserveLinks", "bool"}, {"preserveDevices", "bool"}, {"preserveSpecials", "bool"}, {"alwaysChecksum", "bool"},
			{"fName", "[]byte"}, {"fLength", "int64"}, {"fModTime", "int32"}, {"fMode", "int32"}, {"fUid", "int32"}, {"fGid", "int32"}, {"fRdev", "int32"},
			{"fLinkTarget", "[]byte"}, {"fChecksum", "[]byte"}},
		abstract: rfeAbstract, replace: rfeReplace,
		results: []string{"fName", "fLength", "fModTime", "fMode", "fUid", "fGid", "fRdev", "fLinkTarget", "fChecksum", "inp"}},
	// the same function in four consecutive statement ranges (name; length, time, mode; ids; link target and checksum)
	{name: "rfeName", file: "internal/receiver/flist.go", fn: "receiveFileEntry",
		from: "var l1 int", to: "f.Name = filepath.Clean(string(b))",
		params:   []pvar{{"flags", "uint16"}, {"inp", "[]byte"}, {"lastName", "[]byte"}, {"fName", "[]byte"}},
		abstract: rfeAbstract, replace: rfeReplace, results: []string{"fName", "inp"}},
	{name: "rfeNameLen", file: "internal/receiver/flist.go", fn: "receiveFileEntry",
		from: "var l1 int", to: "if flags&rsync.XMIT_LONG_NAME != 0",
		params:   []pvar{{"flags", "uint16"}, {"inp", "[]byte"}},
		abstract: rfeAbstract, replace: rfeReplace, results: []string{"l1", "l2", "inp"}},
	{name: "rfeNameBody", file: "internal/receiver/flist.go", fn: "receiveFileEntry",
		from: "~const PATH_MAX = 4096", to: "f.Name = filepath.Clean(string(b))",
		params:   []pvar{{"l1", "int"}, {"l2", "int"}, {"inp", "[]byte"}, {"lastName", "[]byte"}, {"fName", "[]byte"}},
		abstract: rfeAbstract, replace: rfeReplace, results: []string{"fName", "inp"}},
	{name: "rfeBasic", file: "internal/receiver/flist.go", fn: "receiveFileEntry",
		from: "length, err := rt.Conn.ReadInt64()", to: "if flags&rsync.XMIT_SAME_MODE != 0",
		params:   []pvar{{"flags", "uint16"}, {"inp", "[]byte"}, {"lastModTime", "int32"}, {"lastMode", "int32"}, {"fLength", "int64"}, {"fModTime", "int32"}, {"fMode", "int32"}},
		abstract: rfeAbstract, replace: rfeReplace, results: []string{"fLength", "fModTime", "fMode", "inp"}},
	{name: "rfeIds", file: "internal/receiver/flist.go", fn: "receiveFileEntry",
		from: "if rt.Opts.PreserveUid", to: "if (rt.Opts.PreserveDevices && isDev)",
		params: []pvar{{"flags", "uint16"}, {"inp", "[]byte"}, {"lastUid", "int32"}, {"lastGid", "int32"}, {"lastRdev", "int32"},
			{"preserveUid", "bool"}, {"preserveGid", "bool"}, {"preserveDevices", "bool"}, {"preserveSpecials", "bool"},
			{"fMode", "int32"}, {"fUid", "int32"}, {"fGid", "int32"}, {"fRdev", "int32"}},
		abstract: rfeAbstract, replace: rfeReplace, results: []string{"fUid", "fGid", "fRdev", "inp"}},
	{name: "rfeExtra", file: "internal/receiver/flist.go", fn: "receiveFileEntry",
		from: "if rt.Opts.PreserveLinks && isLink", to: "if rt.Opts.AlwaysChecksum",
		params: []pvar{{"inp", "[]byte"}, {"isLink", "bool"}, {"preserveLinks", "bool"}, {"alwaysChecksum", "bool"},
			{"fName", "[]byte"}, {"fLength", "int64"}, {"fModTime", "int32"}, {"fMode", "int32"}, {"fUid", "int32"}, {"fGid", "int32"}, {"fRdev", "int32"},
			{"fLinkTarget", "[]byte"}, {"fChecksum", "[]byte"}},
		abstract: rfeAbstract, replace: rfeReplace,
		results: []string{"fName", "fLength", "fModTime", "fMode", "fUid", "fGid", "fRdev", "fLinkTarget", "fChecksum", "inp"}},
	// receiver/flist.go ReceiveFileList: the entry loop (flag byte 0 ends the list; every entry inherits from the one before)
	{name: "recvListLoop", file: "internal/receiver/flist.go", fn: "ReceiveFileList",
		from: "for {", to: "for {",
		params: []pvar{{"inp", "[]byte"}, {"fileList", "[]file"},
			{"lastName", "[]byte"}, {"lastModTime", "int32"}, {"lastMode", "int32"}, {"lastUid", "int32"}, {"lastGid", "int32"}, {"lastRdev", "int32"},
			{"preserveUid", "bool"}, {"preserveGid", "bool"}, {"preserveLinks", "bool"}, {"preserveDevices", "bool"}, {"preserveSpecials", "bool"}, {"alwaysChecksum", "bool"}},
		fuel: []string{"inp.length + 1"},
		drop: []string{"if rt.Opts.DebugGTE(rsyncopts.DEBUG_FLIST, 1)", "if rt.Opts.Progress && len(fileList)%100 == 0"},
		replace: map[string]repl{
			"b, err := rt.Conn.ReadByte()": {"Go.bind (Go.readByte inp) fun (b, inp) =>", []string{"inp"}, []pvar{{"b", "byte"}}},
			"f, err := rt.receiveFileEntry(flags, lastFileEntry)": {"Go.bind (Gen.Pure.receiveFileEntry flags inp lastName lastModTime lastMode lastUid lastGid lastRdev preserveUid preserveGid preserveLinks preserveDevices preserveSpecials alwaysChecksum [] 0 0 0 0 0 0 [] []) fun (fName, fLength, fModTime, fMode, fUid, fGid, fRdev, fLinkTarget, fChecksum, inp) =>", []string{"inp"},
				[]pvar{{"fName", "[]byte"}, {"fLength", "int64"}, {"fModTime", "int32"}, {"fMode", "int32"}, {"fUid", "int32"}, {"fGid", "int32"}, {"fRdev", "int32"}, {"fLinkTarget", "[]byte"}, {"fChecksum", "[]byte"}}},
			"lastFileEntry = f": {"let lastName := fName; let lastModTime := fModTime; let lastMode := fMode; let lastUid := fUid; let lastGid := fGid; let lastRdev := fRdev;",
				[]string{"lastName", "lastModTime", "lastMode", "lastUid", "lastGid", "lastRdev"}, nil},
			"fileList = append(fileList, f)": {"let fileList := fileList ++ [Go.FileRec.mk fName fLength fModTime fMode fUid fGid fRdev fLinkTarget fChecksum];", []string{"fileList"}, nil}},
		results: []string{"fileList", "inp"}},
	// sender/flist.go walkFn: the flag byte of an entry
	{name: "sendEntryFlags", file: "internal/sender/flist.go", fn: "walkFn",
		from: "flags := byte(rsync.XMIT_LONG_NAME)", to: "if name == \".\"",
		params:   []pvar{{"nameIsDot", "bool"}},
		abstract: map[string]abstr{"name == \".\"": {"nameIsDot", "bool"}},
		drop:     []string{"name := path", "if s.strip != \"\"", "if opts.DebugGTE("},
		results:  []string{"flags"}},
	// sender/flist.go walkFn: one entry as it is written to the wire (the buffer `s.fec` is a byte list); what
	// the file system says about the entry is a set of parameters
	{name: "sendEntry", file: "internal/sender/flist.go", fn: "walkFn",
		from: "s.fec.Reset()", to: "if opts.AlwaysChecksum()",
		params: []pvar{{"flags", "byte"}, {"name", "[]byte"}, {"infoSize", "int64"}, {"mtime", "int32"}, {"perm", "int32"},
			{"isDir", "bool"}, {"isRegular", "bool"}, {"isSymlink", "bool"}, {"isCharDev", "bool"}, {"isDevice", "bool"}, {"isPipe", "bool"}, {"isSocket", "bool"},
			{"uid", "int32"}, {"gid", "int32"}, {"rdev", "int32"}, {"target", "[]byte"}, {"fileSum", "[]byte"},
			{"preserveUid", "bool"}, {"preserveGid", "bool"}, {"preserveLinks", "bool"}, {"preserveDevices", "bool"}, {"preserveSpecials", "bool"}, {"alwaysChecksum", "bool"},
			{"fec", "[]byte"}},
		abstract: map[string]abstr{
			"info.Size()": {"infoSize", "int64"}, "info.Mode().IsDir()": {"isDir", "bool"}, "info.Mode().IsRegular()": {"isRegular", "bool"},
			"info.Mode().Type()&os.ModeSymlink != 0": {"isSymlink", "bool"}, "info.Mode().Type()&os.ModeCharDevice != 0": {"isCharDev", "bool"},
			"info.Mode().Type()&os.ModeDevice != 0": {"isDevice", "bool"}, "info.Mode().Type()&os.ModeNamedPipe != 0": {"isPipe", "bool"},
			"info.Mode().Type()&os.ModeSocket != 0": {"isSocket", "bool"},
			"int32(info.ModTime().Unix())":          {"mtime", "int32"}, "int32(info.Mode() & os.ModePerm)": {"perm", "int32"},
			"opts.PreserveUid()": {"preserveUid", "bool"}, "opts.PreserveGid()": {"preserveGid", "bool"}, "opts.PreserveLinks()": {"preserveLinks", "bool"},
			"opts.PreserveDevices()": {"preserveDevices", "bool"}, "opts.PreserveSpecials()": {"preserveSpecials", "bool"}, "opts.AlwaysChecksum()": {"alwaysChecksum", "bool"},
			"string(checksum)": {"checksum", "[]byte"}},
		writers: map[string]writer{
			"s.fec.WriteByte":   {"fec", "byte", "[%s]"},
			"s.fec.WriteInt32":  {"fec", "int32", "Wire.encI32 %s"},
			"s.fec.WriteInt64":  {"fec", "int64", "Wire.encLong (Int64.ofInt %s)"},
			"s.fec.WriteString": {"fec", "[]byte", "%s"}},
		drop: []string{"s.fileList.TotalSize += size", "if ok {", "f.Close()"},
		replace: map[string]repl{
			"s.fec.Reset()":                                   {"let fec : List UInt8 := [];", []string{"fec"}, nil},
			"uid, ok := uidFromFileInfo(info)":                {"", nil, nil},
			"gid, ok := gidFromFileInfo(info)":                {"", nil, nil},
			"rdev, _ := rdevFromFileInfo(info)":               {"", nil, nil},
			"target, err := s.source.Readlink(path)":          {"", nil, nil},
			"var emptyChecksum [rsyncchecksum.Size]byte":      {"", nil, nil},
			"checksum := emptyChecksum[:]":                    {"let checksum : List UInt8 := List.replicate 16 0;", nil, []pvar{{"checksum", "[]byte"}}},
			"f, err := s.source.Open(path)":                   {"", nil, nil},
			"checksum, err = rsyncchecksum.ReaderChecksum(f)": {"let checksum : List UInt8 := fileSum;", []string{"checksum"}, nil}},
		results: []string{"fec"}},
	// sender.go sendFile: the whole-file path — the file is read in pieces of whatever size Read returns (a schedule of
	// short reads is a parameter) and every piece leaves as one literal token; then the end-of-data token
	{name: "sendFileLoop", file: "internal/sender/sender.go", fn: "sendFile",
		from: "offset := 0", to: "if err := st.Conn.WriteInt32(0)",
		params: []pvar{{"rest", "[]byte"}, {"sched", "[]int"}, {"eager", "bool"}, {"out", "[]out"}},
		fuel:   []string{"rest.length + 1"},
		drop:   []string{"if st.Opts.InfoGTE(rsyncopts.INFO_PROGRESS, 1)", "if err != nil && err != io.EOF", "if err2 != nil"},
		replace: map[string]repl{
			"n, err := f.Read(buf)":                           {"Go.bind (Go.readSome rest sched buf eager) fun (n, buf, rest, sched, eof) =>", []string{"buf", "rest", "sched"}, []pvar{{"n", "int"}, {"eof", "bool"}}},
			"if err == io.EOF":                                {"if eof then Go.Res.ok ($LOOP, false) else", nil, nil},
			"if err := st.Conn.WriteInt32(int32(len(chunk)))": {"let out := out ++ [Go.Out.i32 (Int32.ofInt (chunk.length : Int))];", []string{"out"}, nil},
			"n, err2 := st.Conn.Writer.Write(chunk)":          {"let out := out ++ [Go.Out.bytes chunk];\nlet n : Int := (chunk.length : Int);", []string{"out"}, []pvar{{"n", "int"}}},
			"if err := st.Conn.WriteInt32(0)":                 {"let out := out ++ [Go.Out.i32 0];", []string{"out"}, nil}},
		results: []string{"out", "rest"}},
	// receiver/generator.go generateAndSendSums: the basis file is read block by block (a byte list that is consumed),
	// every block's weak sum and strong sum go out; the strong hash is a parameter
	{name: "genSums", file: "internal/receiver/generator.go", fn: "generateAndSendSums",
		from: "buf := make([]byte, int(sh.BlockLength))", to: "for i := int32(0); i < sh.ChecksumCount; i++",
		params: []pvar{{"fileLen", "int64"}, {"blockLength", "int32"}, {"checksumCount", "int32"}, {"inp", "[]byte"}, {"out", "[]out"}, {"H", "hashfn"}},
		fuel:   []string{"checksumCount.toInt.toNat"},
		abstract: map[string]abstr{"sh.BlockLength": {"blockLength", "int32"}, "sh.ChecksumCount": {"checksumCount", "int32"},
			"rsyncchecksum.Checksum2(rt.Seed, b)": {"(H b)", "[]byte"}},
		replace: map[string]repl{
			"if _, err := io.ReadFull(in, b)":               {"Go.bind (Go.readFull inp (b.length : Int)) fun (b, inp) =>", []string{"b", "inp"}, nil},
			"if err := rt.Conn.WriteInt32(int32(sum1))":     {"let out := out ++ [Go.Out.i32 sum1.toInt32];", []string{"out"}, nil},
			"if _, err := rt.Conn.Writer.Write(sum2)":       {"let out := out ++ [Go.Out.bytes sum2];", []string{"out"}, nil}},
		results: []string{"out", "inp"}},
	// sender.go receiveSums: the block list as the sender reads it (index, offset, length, weak sum, strong-sum prefix)
	{name: "recvSums", file: "internal/sender/sender.go", fn: "receiveSums",
		from: "var offset int64", to: "for i := int32(0); i < head.ChecksumCount; i++",
		params: []pvar{{"checksumCount", "int32"}, {"blockLength", "int32"}, {"remainderLength", "int32"}, {"checksumLength", "int32"}, {"inp", "[]byte"}, {"sums", "[]sum"}, {"sbLen", "int64"}},
		fuel:   []string{"checksumCount.toInt.toNat"},
		abstract: map[string]abstr{"head.ChecksumCount": {"checksumCount", "int32"}, "head.BlockLength": {"blockLength", "int32"},
			"head.RemainderLength": {"remainderLength", "int32"}, "sb.Len": {"sbLen", "int64"}},
		drop: []string{"head.Sums = make(", "_ = n"},
		replace: map[string]repl{
			"shortChecksum, err := st.Conn.ReadInt32()": {"Go.bind (Go.readI32 inp) fun (shortChecksum, inp) =>", []string{"inp"}, []pvar{{"shortChecksum", "int32"}}},
			"sb := rsync.SumBuf{":                       {"let sbOffset : Int := offset;", nil, []pvar{{"sbOffset", "int64"}}},
			"n, err := io.ReadFull(st.Conn.Reader, sb.Sum2[:head.ChecksumLength])": {"Go.bind (Go.readFull inp checksumLength.toInt) fun (sum2, inp) =>", []string{"inp"}, []pvar{{"sum2", "[]byte"}}},
			"head.Sums[i] = sb": {"let sums := sums ++ [Go.SumRec.mk i sbOffset sbLen shortChecksum.toUInt32 sum2];", []string{"sums"}, nil}},
		results: []string{"sums", "inp"}},
	// wire: multiplex frame header, and its decoding
	{name: "muxHeader", file: "internal/rsyncwire/wire.go", fn: "WriteMsg",
		from: "header := uint32(mplexBase+tag)<<24 | uint32(len(p))", to: "header := uint32(mplexBase+tag)<<24 | uint32(len(p))",
		params: []pvar{{"tag", "uint8"}, {"p", "[]byte"}}, results: []string{"header"}},
	{name: "muxDecode", file: "internal/rsyncwire/wire.go", fn: "ReadMsg",
		from: "tag = uint8(header>>24) - mplexBase", to: "length := header & 0x00FFFFFF",
		params: []pvar{{"header", "uint32"}, {"tag", "uint8"}}, results: []string{"tag", "length"}},
	// wire: does a 64-bit value go out as 32 bits
	{name: "int64Short", file: "internal/rsyncwire/wire.go", fn: "Conn.WriteInt64",
		from: "if data <= 0x7FFFFFFF && data >= 0", to: "if data <= 0x7FFFFFFF && data >= 0",
		params:  []pvar{{"data", "int64"}, {"short", "bool"}},
		replace: map[string]repl{"return c.WriteInt32(int32(data))": {"let short := true;", []string{"short"}, nil}},
		results: []string{"short"}},
	{name: "int64ShortBuf", file: "internal/rsyncwire/wire.go", fn: "Buffer.WriteInt64",
		from: "if data <= 0x7FFFFFFF && data >= 0", to: "if data <= 0x7FFFFFFF && data >= 0",
		params:  []pvar{{"data", "int64"}, {"short", "bool"}},
		replace: map[string]repl{"b.WriteInt32(int32(data))": {"let short := true;", []string{"short"}, nil}},
		drop:    []string{"return"},
		results: []string{"short"}},
	// block layout the generator chooses
	{name: "SumSizesSqroot", file: "internal/rsynccommon/rsynccommon.go", fn: "SumSizesSqroot",
		from: "blockLength := max(int32(math.Sqrt(float64(contentLen))), blockSize)", to: "blockLength := max(int32(math.Sqrt(float64(contentLen))), blockSize)",
		params: []pvar{{"contentLen", "int64"}}, results: []string{"blockLength"}},
	{name: "sumSizesCount", file: "internal/rsynccommon/rsynccommon.go", fn: "SumSizesSqroot",
		from: "return rsync.SumHead{", to: "return rsync.SumHead{",
		params: []pvar{{"contentLen", "int64"}, {"blockLength", "int32"}}, results: nil},
}

func init() {
	moreGens = append(moreGens, struct {
		name string
		f    func(*repo) string
	}{"Pure", genPure})
}

var leanReserved = map[string]bool{"end": true, "from": true, "at": true, "have": true, "show": true, "then": true, "fun": true,
	"let": true, "in": true, "do": true, "match": true, "with": true, "where": true, "open": true, "local": true, "prefix": true, "at_": true, "instance": true, "structure": true, "class": true, "def": true, "theorem": true, "example": true, "if": true, "else": true, "for": true, "return": true, "mut": true, "section": true, "namespace": true, "variable": true, "universe": true, "by": true, "calc": true, "exact": true, "Type": true, "Prop": true, "Sort": true}

func pureIdent(s string) string {
	if leanReserved[s] {
		return s + "_"
	}
	return s
}

var leanTypes = map[string]string{
	"uint8": "UInt8", "byte": "UInt8", "uint16": "UInt16", "uint32": "UInt32", "uint64": "UInt64",
	"int8": "Int8", "int16": "Int16", "int32": "Int32", "int": "Int", "int64": "Int",
	"bool": "Bool", "[]byte": "List UInt8", "[]out": "List Go.Out", "[]file": "List Go.FileRec", "[]int": "List Nat", "hashfn": "(List UInt8 → List UInt8)", "[]sum": "List Go.SumRec",
}

func isFixed(t string) bool {
	switch t {
	case "uint8", "byte", "uint16", "uint32", "uint64", "int8", "int16", "int32":
		return true
	}
	return false
}
func isUnsigned(t string) bool {
	return t == "uint8" || t == "byte" || t == "uint16" || t == "uint32" || t == "uint64"
}
func isBigInt(t string) bool  { return t == "int" || t == "int64" }
func isInteger(t string) bool { return isFixed(t) || isBigInt(t) || t == "untyped" }
func width(t string) int {
	switch t {
	case "uint8", "byte", "int8":
		return 8
	case "uint16", "int16":
		return 16
	case "uint32", "int32":
		return 32
	case "uint64":
		return 64
	}
	return 0
}

type pureErr struct{ msg string }

type ptr struct {
	r       *repo
	it      *pureItem
	consts  map[string]int64
	structs map[string][]pvar
	funcs   map[string]*pureSig // translated functions by Go name
	env     map[string]string
	monadic bool
	tmp     int
	loopNo  int
	resTyp  []string // Go result types (whole function)
	hasErr  bool     // last result is error
	mutated []string // pointer parameters that are assigned: returned as extra results
	aux     strings.Builder
	seqPos  map[string]int
	loopTup string // non-empty while translating the body of a loop with break/continue: its state tuple
}

type pureSig struct {
	lean    string
	params  []string
	results []string
	monadic bool
}

func (p *ptr) failf(format string, a ...any) { panic(pureErr{fmt.Sprintf(format, a...)}) }

func (p *ptr) leanType(t string) string {
	t = strings.TrimPrefix(t, "*")
	if l, ok := leanTypes[t]; ok {
		return l
	}
	if _, ok := p.structs[t]; ok {
		return t
	}
	p.failf("unsupported type %q", t)
	return ""
}

func (p *ptr) goType(e ast.Expr) string {
	switch v := e.(type) {
	case *ast.Ident:
		return v.Name
	case *ast.StarExpr:
		return "*" + p.goType(v.X)
	case *ast.ArrayType:
		if v.Len == nil {
			return "[]" + p.goType(v.Elt)
		}
		return "[]" + p.goType(v.Elt) // arrays are treated as slices of fixed length
	case *ast.SelectorExpr:
		return v.Sel.Name
	}
	return p.r.src(e)
}

// ---- expressions -------------------------------------------------------------------------------

type binds []string // Lean lines `Go.bind (…) fun x =>` to be emitted before the expression's user

func (p *ptr) fresh() string { p.tmp++; return fmt.Sprintf("t%d", p.tmp) }

func (p *ptr) constVal(e ast.Expr) (int64, bool) {
	env := &constEnv{vals: p.consts}
	// only genuinely constant expressions: reject anything that mentions a variable in scope
	bad := false
	ast.Inspect(e, func(n ast.Node) bool {
		if id, ok := n.(*ast.Ident); ok {
			if _, isVar := p.env[id.Name]; isVar {
				bad = true
			}
		}
		return !bad
	})
	if bad {
		return 0, false
	}
	return env.eval(e, 0)
}

func lit(v int64, t string, p *ptr) string {
	if t == "untyped" || t == "" {
		t = "int"
	}
	if v < 0 {
		return fmt.Sprintf("(%d : %s)", v, p.leanType(t))
	}
	return fmt.Sprintf("(%d : %s)", v, p.leanType(t))
}

// asInt: the mathematical value of an integer expression as a Lean Int
func asInt(s, t string) string {
	switch {
	case isBigInt(t):
		return s
	case isUnsigned(t):
		return "(" + s + ".toNat : Int)"
	default:
		return s + ".toInt"
	}
}

func (p *ptr) conv(s, from, to string) string {
	if from == to || (isBigInt(from) && isBigInt(to)) || (from == "byte" && to == "uint8") || (from == "uint8" && to == "byte") {
		return s
	}
	lt := p.leanType(to)
	if isBigInt(to) {
		return asInt(s, from)
	}
	if isBigInt(from) {
		return fmt.Sprintf("(%s.ofInt %s)", lt, s)
	}
	// fixed -> fixed: the direct casts exist for all pairs of UIntN, for UIntN <-> IntN of the same width
	if isUnsigned(from) && isUnsigned(to) {
		return fmt.Sprintf("%s.to%s", paren(s), lt)
	}
	if width(from) == width(to) {
		return fmt.Sprintf("%s.to%s", paren(s), lt)
	}
	return fmt.Sprintf("(%s.ofInt %s)", lt, asInt(s, from))
}

func paren(s string) string {
	if strings.ContainsAny(s, " ") && !(strings.HasPrefix(s, "(") && matchingParen(s)) {
		return "(" + s + ")"
	}
	return s
}

func matchingParen(s string) bool {
	depth := 0
	for i, c := range s {
		if c == '(' {
			depth++
		} else if c == ')' {
			depth--
			if depth == 0 && i != len(s)-1 {
				return false
			}
		}
	}
	return depth == 0
}

func isPow2Minus1(v int64) (int, bool) {
	if v <= 0 {
		return 0, false
	}
	k := 0
	for x := v; x > 0; x >>= 1 {
		if x&1 == 0 {
			return 0, false
		}
		k++
	}
	return k, true
}

// expr translates e; want is the Go type expected by the context ("" if none). Returns Lean text and Go type.
func (p *ptr) expr(e ast.Expr, want string, bs *binds) (string, string) {
	if a, ok := p.it.abstract[p.r.src(e)]; ok {
		return a.lean, a.typ
	}
	switch v := e.(type) {
	case *ast.ParenExpr:
		s, t := p.expr(v.X, want, bs)
		return paren(s), t
	case *ast.BasicLit:
		if v.Kind == token.INT || v.Kind == token.CHAR {
			n, ok := p.constVal(v)
			if !ok {
				p.failf("bad literal %s", v.Value)
			}
			if want == "" || !isInteger(want) {
				return fmt.Sprintf("%d", n), "untyped"
			}
			return lit(n, want, p), want
		}
	case *ast.Ident:
		switch v.Name {
		case "true", "false":
			return v.Name, "bool"
		case "nil":
			return "[]", "[]byte"
		}
		if t, ok := p.env[v.Name]; ok {
			return pureIdent(v.Name), t
		}
		if n, ok := p.consts[v.Name]; ok {
			if want == "" || !isInteger(want) {
				return fmt.Sprintf("%d", n), "untyped"
			}
			return lit(n, want, p), want
		}
		p.failf("unknown identifier %s", v.Name)
	case *ast.SelectorExpr:
		// constant of another package, or a field of a struct variable
		if id, ok := v.X.(*ast.Ident); ok {
			if t, isVar := p.env[id.Name]; isVar {
				for _, f := range p.structs[strings.TrimPrefix(t, "*")] {
					if f.name == v.Sel.Name {
						return pureIdent(id.Name) + "." + pureIdent(f.name), f.typ
					}
				}
				p.failf("field %s of %s (%s) is not modelled", v.Sel.Name, id.Name, t)
			}
			if n, ok := p.consts[v.Sel.Name]; ok {
				if want == "" || !isInteger(want) {
					return fmt.Sprintf("%d", n), "untyped"
				}
				return lit(n, want, p), want
			}
		}
		p.failf("unsupported selector %s", p.r.src(e))
	case *ast.UnaryExpr:
		switch v.Op {
		case token.SUB:
			if n, ok := p.constVal(e); ok {
				if want == "" || !isInteger(want) {
					return fmt.Sprintf("(%d)", n), "untyped"
				}
				return lit(n, want, p), want
			}
			s, t := p.expr(v.X, want, bs)
			return "(-" + paren(s) + ")", t
		case token.NOT:
			s, _ := p.expr(v.X, "bool", bs)
			return "(!" + paren(s) + ")", "bool"
		}
	case *ast.BinaryExpr:
		return p.binary(v, want, bs)
	case *ast.CallExpr:
		return p.call(v, want, bs)
	case *ast.IndexExpr:
		b, bt := p.expr(v.X, "", bs)
		if bt != "[]byte" {
			p.failf("index into %s", bt)
		}
		i, it := p.expr(v.Index, "int", bs)
		t := p.fresh()
		*bs = append(*bs, fmt.Sprintf("Go.bind (Go.idx %s %s) fun %s =>", paren(b), paren(asInt(i, it)), t))
		return t, "byte"
	case *ast.SliceExpr:
		b, bt := p.expr(v.X, "", bs)
		if bt != "[]byte" {
			p.failf("slice of %s", bt)
		}
		lo, hi := "0", fmt.Sprintf("(%s.length : Int)", paren(b))
		if v.Low != nil {
			s, t := p.expr(v.Low, "int", bs)
			lo = paren(asInt(s, t))
		}
		if v.High != nil {
			s, t := p.expr(v.High, "int", bs)
			hi = paren(asInt(s, t))
		}
		if v.Low == nil && v.High == nil {
			return b, "[]byte"
		}
		t := p.fresh()
		*bs = append(*bs, fmt.Sprintf("Go.bind (Go.slice %s %s %s) fun %s =>", paren(b), lo, hi, t))
		return t, "[]byte"
	}
	p.failf("unsupported expression %s", p.r.src(e))
	return "", ""
}

func (p *ptr) binary(v *ast.BinaryExpr, want string, bs *binds) (string, string) {
	op := v.Op
	switch op {
	case token.LAND, token.LOR:
		// Go evaluates the right operand only if needed; operands with panicking subterms are rejected
		var b2 binds
		x, _ := p.expr(v.X, "bool", bs)
		y, _ := p.expr(v.Y, "bool", &b2)
		if len(b2) > 0 {
			// the right operand is evaluated (and may panic) only when the left one does not decide
			t := p.fresh()
			other := "false"
			cond := x
			if op == token.LOR {
				other = "true"
				cond = "(!" + paren(x) + ")"
			}
			*bs = append(*bs, fmt.Sprintf("Go.bind (if %s then\n(%s\nGo.Res.ok %s)\nelse\n(Go.Res.ok %s)) fun %s =>", cond, strings.Join(b2, "\n"), paren(y), other, t))
			return t, "bool"
		}
		if op == token.LAND {
			return fmt.Sprintf("(%s && %s)", x, y), "bool"
		}
		return fmt.Sprintf("(%s || %s)", x, y), "bool"
	case token.EQL, token.NEQ, token.LSS, token.LEQ, token.GTR, token.GEQ:
		x, y, t := p.operands(v.X, v.Y, "", bs)
		_ = t
		lop := map[token.Token]string{token.EQL: "==", token.NEQ: "!=", token.LSS: "<", token.LEQ: "≤", token.GTR: ">", token.GEQ: "≥"}[op]
		if op == token.EQL || op == token.NEQ {
			return fmt.Sprintf("(%s %s %s)", x, lop, y), "bool"
		}
		return fmt.Sprintf("(decide (%s %s %s))", x, lop, y), "bool"
	case token.SHL, token.SHR:
		c, ok := p.constVal(v.Y)
		if !ok || c < 0 {
			p.failf("shift by a non-constant: %s", p.r.src(v))
		}
		x, t := p.expr(v.X, want, bs)
		if t == "untyped" {
			t = "int"
		}
		if isBigInt(t) {
			if op == token.SHL {
				return fmt.Sprintf("(%s * %d)", x, int64(1)<<uint(c)), t
			}
			return fmt.Sprintf("(%s / %d)", x, int64(1)<<uint(c)), t
		}
		if int(c) >= width(t) {
			p.failf("shift count %d >= width of %s", c, t)
		}
		if op == token.SHL {
			return fmt.Sprintf("(%s <<< %d)", x, c), t
		}
		return fmt.Sprintf("(%s >>> %d)", x, c), t
	case token.ADD, token.SUB, token.MUL, token.AND, token.OR, token.XOR, token.QUO, token.REM:
		if n, ok := p.constVal(v); ok {
			if want == "" || !isInteger(want) {
				return fmt.Sprintf("%d", n), "untyped"
			}
			return lit(n, want, p), want
		}
		x, y, t := p.operands(v.X, v.Y, want, bs)
		switch op {
		case token.ADD:
			return fmt.Sprintf("(%s + %s)", x, y), t
		case token.SUB:
			return fmt.Sprintf("(%s - %s)", x, y), t
		case token.MUL:
			return fmt.Sprintf("(%s * %s)", x, y), t
		case token.AND, token.OR, token.XOR:
			if isBigInt(t) {
				m, ok := p.constVal(v.Y)
				k, ok2 := isPow2Minus1(m)
				if !ok || !ok2 {
					p.failf("bit operation on int with a mask that is not 2^k-1: %s", p.r.src(v))
				}
				pow := int64(1) << uint(k)
				if op == token.AND {
					return fmt.Sprintf("(%s %% %d)", x, pow), t
				}
				if op == token.OR {
					return fmt.Sprintf("(%s - %s %% %d + %d)", x, x, pow, m), t
				}
				p.failf("xor on int: %s", p.r.src(v))
			}
			lop := map[token.Token]string{token.AND: "&&&", token.OR: "|||", token.XOR: "^^^"}[op]
			return fmt.Sprintf("(%s %s %s)", x, lop, y), t
		case token.QUO, token.REM:
			if !isBigInt(t) && !isUnsigned(t) {
				// signed fixed width: go through Int and back (truncated division)
				f := map[token.Token]string{token.QUO: "Go.div", token.REM: "Go.rem"}[op]
				tmp := p.fresh()
				*bs = append(*bs, fmt.Sprintf("Go.bind (%s %s %s) fun %s =>", f, asInt(x, t), asInt(y, t), tmp))
				return p.conv(tmp, "int", t), t
			}
			if isUnsigned(t) {
				f := map[token.Token]string{token.QUO: "/", token.REM: "%"}[op]
				tmp := p.fresh()
				*bs = append(*bs, fmt.Sprintf("Go.bind (Go.nonzero (%s != 0)) fun _ =>", y))
				_ = tmp
				return fmt.Sprintf("(%s %s %s)", x, f, y), t
			}
			f := map[token.Token]string{token.QUO: "Go.div", token.REM: "Go.rem"}[op]
			tmp := p.fresh()
			*bs = append(*bs, fmt.Sprintf("Go.bind (%s %s %s) fun %s =>", f, paren(x), paren(y), tmp))
			return tmp, t
		}
	}
	p.failf("unsupported operator in %s", p.r.src(v))
	return "", ""
}

// operands translates both sides of a binary operation to a common type
func (p *ptr) operands(X, Y ast.Expr, want string, bs *binds) (string, string, string) {
	_, xc := p.constVal(X)
	if xc {
		y, t := p.expr(Y, want, bs)
		if t == "untyped" {
			t = "int"
			y, _ = p.expr(Y, t, bs)
		}
		x, _ := p.expr(X, t, bs)
		return x, y, t
	}
	x, t := p.expr(X, want, bs)
	if t == "untyped" {
		t = "int"
	}
	y, ty := p.expr(Y, t, bs)
	if ty != t && ty != "untyped" && !(isBigInt(t) && isBigInt(ty)) && !(width(t) == 8 && width(ty) == 8 && isUnsigned(t) && isUnsigned(ty)) {
		p.failf("operand types differ: %s (%s) vs %s (%s)", p.r.src(X), t, p.r.src(Y), ty)
	}
	return x, y, t
}

func (p *ptr) call(c *ast.CallExpr, want string, bs *binds) (string, string) {
	fn := p.r.src(c.Fun)
	if vals, ok := p.it.seq[p.r.src(c)]; ok {
		if p.seqPos == nil {
			p.seqPos = map[string]int{}
		}
		i := p.seqPos[p.r.src(c)]
		if i >= len(vals) {
			p.failf("more occurrences of %s than configured values", p.r.src(c))
		}
		p.seqPos[p.r.src(c)] = i + 1
		return vals[i].lean, vals[i].typ
	}
	// conversions
	if _, ok := leanTypes[fn]; ok && len(c.Args) == 1 {
		// int32(math.Sqrt(float64(e))): the truncated square root
		if inner, ok := c.Args[0].(*ast.CallExpr); ok && p.r.src(inner.Fun) == "math.Sqrt" && len(inner.Args) == 1 {
			if f, ok := inner.Args[0].(*ast.CallExpr); ok && p.r.src(f.Fun) == "float64" && len(f.Args) == 1 {
				s, t := p.expr(f.Args[0], "", bs)
				return p.conv(fmt.Sprintf("(Go.sqrtTrunc %s)", paren(asInt(s, t))), "int", fn), fn
			}
		}
		if n, ok := p.constVal(c.Args[0]); ok {
			return lit(n, fn, p), fn
		}
		s, t := p.expr(c.Args[0], "", bs)
		if t == "untyped" {
			return p.expr(c.Args[0], fn, bs)
		}
		return p.conv(s, t, fn), fn
	}
	switch fn {
	case "len":
		s, t := p.expr(c.Args[0], "", bs)
		if t != "[]byte" {
			p.failf("len of %s", t)
		}
		return fmt.Sprintf("(%s.length : Int)", paren(s)), "int"
	case "min", "max":
		if len(c.Args) != 2 {
			p.failf("%s with %d arguments", fn, len(c.Args))
		}
		x, y, t := p.operands(c.Args[0], c.Args[1], want, bs)
		return fmt.Sprintf("(%s %s %s)", fn, paren(x), paren(y)), t
	case "make":
		if p.goType(c.Args[0]) != "[]byte" || len(c.Args) != 2 {
			p.failf("unsupported make: %s", p.r.src(c))
		}
		n, nt := p.expr(c.Args[1], "int", bs)
		t := p.fresh()
		*bs = append(*bs, fmt.Sprintf("Go.bind (Go.make %s) fun %s =>", paren(asInt(n, nt)), t))
		return t, "[]byte"
	}
	// other translated functions (optionally package-qualified)
	short := fn
	if i := strings.LastIndex(fn, "."); i >= 0 {
		short = fn[i+1:]
	}
	if sig, ok := p.funcs[short]; ok {
		if len(sig.params) != len(c.Args) {
			p.failf("arity of %s", fn)
		}
		args := []string{}
		for i, a := range c.Args {
			s, t := p.expr(a, sig.params[i], bs)
			if t != sig.params[i] && !(isBigInt(t) && isBigInt(sig.params[i])) && !(t == "byte" && sig.params[i] == "uint8") {
				p.failf("argument %d of %s has type %s, want %s", i, fn, t, sig.params[i])
			}
			args = append(args, paren(s))
		}
		app := sig.lean + " " + strings.Join(args, " ")
		rt := "unit"
		if len(sig.results) == 1 {
			rt = sig.results[0]
		}
		if sig.monadic {
			t := p.fresh()
			*bs = append(*bs, fmt.Sprintf("Go.bind (%s) fun %s =>", app, t))
			return t, rt
		}
		return "(" + app + ")", rt
	}
	p.failf("unsupported call %s", p.r.src(c))
	return "", ""
}

// ---- statements --------------------------------------------------------------------------------

func (p *ptr) prefixMatch(s ast.Stmt, prefixes []string) bool {
	src := p.r.src(s)
	for _, x := range prefixes {
		if strings.HasPrefix(src, x) {
			return true
		}
	}
	return false
}

func (p *ptr) containsReturn(n ast.Node) bool {
	found := false
	ast.Inspect(n, func(x ast.Node) bool {
		if st, ok := x.(ast.Stmt); ok {
			if p.prefixMatch(st, p.it.drop) {
				return false
			}
			for k := range p.it.replace {
				if replMatches(p.r.src(st), k) {
					return false
				}
			}
		}
		if i, ok := x.(*ast.IfStmt); ok && p.r.src(i.Cond) == "err != nil" {
			return false
		}
		if _, ok := x.(*ast.ReturnStmt); ok {
			found = true
		}
		if _, ok := x.(*ast.BranchStmt); ok && p.loopTup != "" {
			found = true
		}
		if _, ok := x.(*ast.FuncLit); ok {
			return false
		}
		return !found
	})
	return found
}

// assigned collects names assigned (not declared) in a statement list, in first-assignment order
func (p *ptr) assigned(stmts []ast.Stmt, declared map[string]bool, out *[]string) {
	add := func(n string) {
		if declared[n] {
			return
		}
		if _, ok := p.env[n]; !ok {
			return
		}
		for _, x := range *out {
			if x == n {
				return
			}
		}
		*out = append(*out, n)
	}
	lhsName := func(e ast.Expr) string {
		if a, ok := p.it.abstract[p.r.src(e)]; ok {
			return a.lean
		}
		switch v := e.(type) {
		case *ast.Ident:
			return v.Name
		case *ast.SelectorExpr:
			if id, ok := v.X.(*ast.Ident); ok {
				return id.Name
			}
		case *ast.SliceExpr:
			return p.lhsBase(v.X)
		}
		return ""
	}
	for _, s := range stmts {
		if p.prefixMatch(s, p.it.drop) {
			continue
		}
		replaced := false
		for k, rep := range p.it.replace {
			if replMatches(p.r.src(s), k) {
				for _, a := range rep.assigns {
					add(a)
				}
				replaced = true
			}
		}
		if replaced {
			continue
		}
		switch v := s.(type) {
		case *ast.AssignStmt:
			for _, l := range v.Lhs {
				n := lhsName(l)
				if v.Tok == token.DEFINE {
					if _, exists := p.env[n]; !exists || true {
						// := declares in the current block: only counts if the name is not new here
						declared[n] = declared[n] || !p.inEnv(n)
					}
				}
				add(n)
			}
		case *ast.IncDecStmt:
			add(lhsName(v.X))
		case *ast.DeclStmt:
			if gd, ok := v.Decl.(*ast.GenDecl); ok {
				for _, sp := range gd.Specs {
					if vs, ok := sp.(*ast.ValueSpec); ok {
						for _, n := range vs.Names {
							declared[n.Name] = true
						}
					}
				}
			}
		case *ast.IfStmt:
			d2 := map[string]bool{}
			for k, x := range declared {
				d2[k] = x
			}
			if v.Init != nil {
				p.assigned([]ast.Stmt{v.Init}, d2, out)
			}
			p.assigned(v.Body.List, d2, out)
			if v.Else != nil {
				d3 := map[string]bool{}
				for k, x := range declared {
					d3[k] = x
				}
				switch e := v.Else.(type) {
				case *ast.BlockStmt:
					p.assigned(e.List, d3, out)
				case *ast.IfStmt:
					p.assigned([]ast.Stmt{e}, d3, out)
				}
			}
		case *ast.ForStmt:
			d2 := map[string]bool{}
			for k, x := range declared {
				d2[k] = x
			}
			if v.Init != nil {
				p.assigned([]ast.Stmt{v.Init}, d2, out)
			}
			p.assigned(v.Body.List, d2, out)
			if v.Post != nil {
				p.assigned([]ast.Stmt{v.Post}, d2, out)
			}
		case *ast.BlockStmt:
			d2 := map[string]bool{}
			for k, x := range declared {
				d2[k] = x
			}
			p.assigned(v.List, d2, out)
		case *ast.ExprStmt:
			if c, ok := v.X.(*ast.CallExpr); ok && p.r.src(c.Fun) == "copy" {
				add(p.lhsBase(c.Args[0]))
			}
			if c, ok := v.X.(*ast.CallExpr); ok {
				if wr, ok := p.it.writers[p.r.src(c.Fun)]; ok {
					add(wr.buf)
				}
			}
		}
	}
}

func (p *ptr) inEnv(n string) bool { _, ok := p.env[n]; return ok }

func (p *ptr) lhsBase(e ast.Expr) string {
	switch v := e.(type) {
	case *ast.Ident:
		return v.Name
	case *ast.SelectorExpr:
		if id, ok := v.X.(*ast.Ident); ok {
			return id.Name
		}
	case *ast.SliceExpr:
		return p.lhsBase(v.X)
	}
	p.failf("unsupported assignment target %s", p.r.src(e))
	return ""
}

func tuple(names []string) string {
	if len(names) == 0 {
		return "()"
	}
	l := make([]string, len(names))
	for i, n := range names {
		l[i] = pureIdent(n)
	}
	if len(l) == 1 {
		return l[0]
	}
	return "(" + strings.Join(l, ", ") + ")"
}

func (p *ptr) ok(s string) string {
	if p.monadic {
		return "Go.Res.ok " + paren(s)
	}
	return s
}

// assignTo emits the binding of Lean value `val` (Go type t) to the assignment target lhs
func (p *ptr) assignTo(lhs ast.Expr, val, t string, define bool, w *strings.Builder) {
	if a, ok := p.it.abstract[p.r.src(lhs)]; ok {
		lhs = ast.NewIdent(a.lean)
	}
	switch v := lhs.(type) {
	case *ast.Ident:
		if v.Name == "_" {
			return
		}
		if old, ok := p.env[v.Name]; ok && !define && old != t && !(isBigInt(old) && isBigInt(t)) && !(old == "byte" && t == "uint8") {
			p.failf("assignment of %s to %s (%s)", t, v.Name, old)
		}
		if _, ok := p.env[v.Name]; !ok && !define {
			p.failf("assignment to unknown variable %s", v.Name)
		}
		if !p.inEnv(v.Name) || define {
			p.env[v.Name] = t
		}
		fmt.Fprintf(w, "let %s : %s := %s;\n", pureIdent(v.Name), p.leanType(p.env[v.Name]), val)
	case *ast.SelectorExpr:
		id, ok := v.X.(*ast.Ident)
		if !ok || !p.inEnv(id.Name) {
			p.failf("unsupported assignment target %s", p.r.src(lhs))
		}
		fmt.Fprintf(w, "let %s := { %s with %s := %s };\n", pureIdent(id.Name), pureIdent(id.Name), pureIdent(v.Sel.Name), val)
	default:
		p.failf("unsupported assignment target %s", p.r.src(lhs))
	}
}

func (p *ptr) flush(bs binds, w *strings.Builder) {
	if len(bs) > 0 && !p.monadic {
		p.failf("internal: monadic operation in a definition classified as pure")
	}
	for _, b := range bs {
		w.WriteString(b + "\n")
	}
}

// stmts translates a statement list followed by the continuation text k (a Lean term)
func (p *ptr) stmts(list []ast.Stmt, k func() string, w *strings.Builder) {
	if len(list) == 0 {
		w.WriteString(k())
		return
	}
	s, rest := list[0], list[1:]
	cont := func() { p.stmts(rest, k, w) }
	if p.prefixMatch(s, p.it.drop) {
		cont()
		return
	}
	for key, rep := range p.it.replace {
		if replMatches(p.r.src(s), key) {
			w.WriteString(strings.ReplaceAll(rep.lean, "$LOOP", p.loopTup) + "\n")
			for _, d := range rep.declares {
				p.env[d.name] = d.typ
			}
			cont()
			return
		}
	}
	switch v := s.(type) {
	case *ast.EmptyStmt:
		cont()
	case *ast.DeclStmt:
		gd := v.Decl.(*ast.GenDecl)
		if gd.Tok == token.CONST {
			for _, sp := range gd.Specs {
				vs := sp.(*ast.ValueSpec)
				for i, n := range vs.Names {
					if i < len(vs.Values) {
						if c, ok := p.constVal(vs.Values[i]); ok {
							p.consts[n.Name] = c
						}
					}
				}
			}
			cont()
			return
		}
		if gd.Tok != token.VAR {
			p.failf("unsupported declaration %s", p.r.src(s))
		}
		for _, sp := range gd.Specs {
			vs := sp.(*ast.ValueSpec)
			if vs.Type != nil && p.goType(vs.Type) == "error" {
				continue
			}
			for i, n := range vs.Names {
				if vs.Type == nil && i >= len(vs.Values) {
					p.failf("var without type: %s", p.r.src(s))
				}
				if i < len(vs.Values) {
					var bs binds
					t := ""
					if vs.Type != nil {
						t = p.goType(vs.Type)
					}
					val, vt := p.expr(vs.Values[i], t, &bs)
					if t == "" {
						t = vt
					}
					p.flush(bs, w)
					p.env[n.Name] = t
					fmt.Fprintf(w, "let %s : %s := %s;\n", pureIdent(n.Name), p.leanType(t), val)
				} else {
					t := p.goType(vs.Type)
					p.env[n.Name] = t
					zero := "0"
					switch t {
					case "bool":
						zero = "false"
					case "[]byte":
						zero = "[]"
					}
					fmt.Fprintf(w, "let %s : %s := %s;\n", pureIdent(n.Name), p.leanType(t), zero)
				}
			}
		}
		cont()
	case *ast.AssignStmt:
		var bs binds
		if len(v.Lhs) == 2 && len(v.Rhs) == 1 {
			if id, ok := v.Lhs[1].(*ast.Ident); ok && (id.Name == "err" || id.Name == "_") {
				_, isSeq := p.it.seq[p.r.src(v.Rhs[0])]
				if _, isAbs := p.it.abstract[p.r.src(v.Rhs[0])]; isAbs {
					isSeq = true
				}
				if isSeq {
					v = &ast.AssignStmt{Lhs: v.Lhs[:1], Tok: v.Tok, Rhs: v.Rhs}
					if v.Tok == token.DEFINE && p.inEnv(p.lhsBase(v.Lhs[0])) {
						v.Tok = token.ASSIGN
					}
				}
			}
		}
		if len(v.Lhs) != len(v.Rhs) {
			p.failf("unsupported multi-value assignment %s", p.r.src(s))
		}
		if v.Tok == token.ASSIGN || v.Tok == token.DEFINE {
			vals := make([]string, len(v.Rhs))
			typs := make([]string, len(v.Rhs))
			for i := range v.Rhs {
				want := ""
				if v.Tok == token.ASSIGN {
					want = p.lhsType(v.Lhs[i])
				}
				vals[i], typs[i] = p.expr(v.Rhs[i], want, &bs)
				if typs[i] == "untyped" {
					t := "int"
					if want != "" {
						t = want
					}
					vals[i], typs[i] = p.expr(v.Rhs[i], t, &bs)
				}
			}
			p.flush(bs, w)
			if len(v.Lhs) > 1 {
				// parallel assignment: evaluate all right-hand sides first
				for i := range vals {
					fmt.Fprintf(w, "let rhs%d := %s;\n", i, vals[i])
					vals[i] = fmt.Sprintf("rhs%d", i)
				}
			}
			for i := range v.Lhs {
				p.assignTo(v.Lhs[i], vals[i], typs[i], v.Tok == token.DEFINE, w)
			}
			cont()
			return
		}
		// op=
		opmap := map[token.Token]token.Token{token.ADD_ASSIGN: token.ADD, token.SUB_ASSIGN: token.SUB, token.MUL_ASSIGN: token.MUL,
			token.AND_ASSIGN: token.AND, token.OR_ASSIGN: token.OR, token.XOR_ASSIGN: token.XOR, token.SHL_ASSIGN: token.SHL, token.SHR_ASSIGN: token.SHR,
			token.QUO_ASSIGN: token.QUO, token.REM_ASSIGN: token.REM}
		op, ok := opmap[v.Tok]
		if !ok {
			p.failf("unsupported assignment %s", p.r.src(s))
		}
		be := &ast.BinaryExpr{X: v.Lhs[0], Op: op, Y: v.Rhs[0]}
		val, t := p.binarySynth(be, p.lhsType(v.Lhs[0]), &bs)
		p.flush(bs, w)
		p.assignTo(v.Lhs[0], val, t, false, w)
		cont()
	case *ast.IncDecStmt:
		var bs binds
		op := token.ADD
		if v.Tok == token.DEC {
			op = token.SUB
		}
		be := &ast.BinaryExpr{X: v.X, Op: op, Y: &ast.BasicLit{Kind: token.INT, Value: "1"}}
		val, t := p.binarySynth(be, p.lhsType(v.X), &bs)
		p.flush(bs, w)
		p.assignTo(v.X, val, t, false, w)
		cont()
	case *ast.ExprStmt:
		c, ok := v.X.(*ast.CallExpr)
		if !ok {
			p.failf("unsupported statement %s", p.r.src(s))
		}
		fn := p.r.src(c.Fun)
		if strings.HasSuffix(fn, "Logger.Printf") || strings.HasSuffix(fn, ".Logf") || fn == "log.Printf" {
			cont()
			return
		}
		if wr, ok := p.it.writers[fn]; ok && len(c.Args) == 1 {
			var bs binds
			a, t := p.expr(c.Args[0], wr.argTyp, &bs)
			if t == "untyped" {
				a, t = p.expr(c.Args[0], wr.argTyp, &bs)
			}
			if t != wr.argTyp && !(wr.argTyp == "byte" && t == "uint8") && !(isBigInt(wr.argTyp) && isBigInt(t)) {
				p.failf("writer %s: argument %s has type %s, want %s", fn, p.r.src(c.Args[0]), t, wr.argTyp)
			}
			p.flush(bs, w)
			fmt.Fprintf(w, "let %s := %s ++ %s;\n", pureIdent(wr.buf), pureIdent(wr.buf), fmt.Sprintf(wr.format, paren(a)))
			cont()
			return
		}
		if fn == "copy" && len(c.Args) == 2 {
			var bs binds
			dst, _ := p.expr(p.stripFullSlice(c.Args[0]), "", &bs)
			src, st := p.expr(c.Args[1], "", &bs)
			if st != "[]byte" {
				p.failf("copy from %s", st)
			}
			p.flush(bs, w)
			p.assignTo(p.stripFullSlice(c.Args[0]), fmt.Sprintf("Go.copy %s %s", paren(dst), paren(src)), "[]byte", false, w)
			cont()
			return
		}
		p.failf("unsupported call statement %s", p.r.src(s))
	case *ast.BlockStmt:
		saved := p.saveEnv()
		p.stmts(v.List, func() string {
			p.restoreEnvKeeping(saved)
			var b strings.Builder
			p.stmts(rest, k, &b)
			return b.String()
		}, w)
	case *ast.BranchStmt:
		if p.loopTup == "" || v.Label != nil {
			p.failf("unsupported jump %s", p.r.src(s))
		}
		switch v.Tok {
		case token.BREAK:
			fmt.Fprintf(w, "Go.Res.ok (%s, false)", p.loopTup)
		case token.CONTINUE:
			fmt.Fprintf(w, "Go.Res.ok (%s, true)", p.loopTup)
		default:
			p.failf("unsupported jump %s", p.r.src(s))
		}
	case *ast.ReturnStmt:
		w.WriteString(p.ret(v))
	case *ast.IfStmt:
		p.ifStmt(v, rest, k, w)
	case *ast.ForStmt:
		p.forStmt(v, rest, k, w)
	default:
		p.failf("unsupported statement %s", p.r.src(s))
	}
}

func (p *ptr) stripFullSlice(e ast.Expr) ast.Expr {
	if s, ok := e.(*ast.SliceExpr); ok && s.Low == nil && s.High == nil {
		return s.X
	}
	return e
}

func (p *ptr) binarySynth(be *ast.BinaryExpr, want string, bs *binds) (string, string) {
	// the synthesised node has no position; p.r.src on it still prints correctly
	return p.binary(be, want, bs)
}

func (p *ptr) lhsType(e ast.Expr) string {
	switch v := e.(type) {
	case *ast.Ident:
		return p.env[v.Name]
	case *ast.SelectorExpr:
		if a, ok := p.it.abstract[p.r.src(e)]; ok {
			return a.typ
		}
		if id, ok := v.X.(*ast.Ident); ok {
			for _, f := range p.structs[strings.TrimPrefix(p.env[id.Name], "*")] {
				if f.name == v.Sel.Name {
					return f.typ
				}
			}
		}
	}
	return ""
}

func (p *ptr) saveEnv() map[string]string {
	m := map[string]string{}
	for k, v := range p.env {
		m[k] = v
	}
	return m
}

// after a nested block, variables declared inside go out of scope
func (p *ptr) restoreEnvKeeping(saved map[string]string) {
	for k := range p.env {
		if _, ok := saved[k]; !ok {
			delete(p.env, k)
		}
	}
	for k, v := range saved {
		p.env[k] = v
	}
}

func (p *ptr) ret(v *ast.ReturnStmt) string {
	res := v.Results
	if p.hasErr {
		if len(res) == 0 {
			p.failf("bare return in a function with results")
		}
		last := res[len(res)-1]
		if id, ok := last.(*ast.Ident); !ok || id.Name != "nil" {
			return "Go.Res.err"
		}
		res = res[:len(res)-1]
	}
	var bs binds
	vals := []string{}
	for i, e := range res {
		want := ""
		if i < len(p.resTyp) {
			want = p.resTyp[i]
		}
		// composite literal of the result struct: a tuple of its integer fields in source order
		if cl, ok := e.(*ast.CompositeLit); ok {
			for _, el := range cl.Elts {
				kv, ok := el.(*ast.KeyValueExpr)
				if !ok {
					p.failf("unsupported composite literal %s", p.r.src(e))
				}
				s, t := p.expr(kv.Value, "", &bs)
				if t == "untyped" {
					s, _ = p.expr(kv.Value, "int", &bs)
				}
				vals = append(vals, s)
			}
			continue
		}
		s, t := p.expr(e, want, &bs)
		if t == "untyped" && want != "" {
			s, _ = p.expr(e, want, &bs)
		}
		vals = append(vals, s)
	}
	for _, m := range p.mutated {
		vals = append(vals, pureIdent(m))
	}
	for _, m := range p.it.extraResults {
		vals = append(vals, pureIdent(m))
	}
	if p.loopTup != "" {
		p.failf("return of a value inside a loop with break/continue")
	}
	var b strings.Builder
	p.flush(bs, &b)
	out := "()"
	if len(vals) == 1 {
		out = vals[0]
	} else if len(vals) > 1 {
		out = "(" + strings.Join(vals, ", ") + ")"
	}
	b.WriteString(p.ok(out))
	return b.String()
}

func (p *ptr) ifStmt(v *ast.IfStmt, rest []ast.Stmt, k func() string, w *strings.Builder) {
	condSrc := p.r.src(v.Cond)
	if condSrc == "err != nil" {
		// success path only (documented): the error branch of an I/O call is not modelled
		p.stmts(rest, k, w)
		return
	}
	saved := p.saveEnv()
	if v.Init != nil {
		// `if x := e; cond`: x is scoped to the if
		p.stmts([]ast.Stmt{v.Init}, func() string { return "" }, w)
	}
	var bs binds
	cond, _ := p.expr(v.Cond, "bool", &bs)
	p.flush(bs, w)
	var elseList []ast.Stmt
	switch e := v.Else.(type) {
	case *ast.BlockStmt:
		elseList = e.List
	case *ast.IfStmt:
		elseList = []ast.Stmt{e}
	}
	if p.containsReturn(v) {
		// duplicate the continuation into both branches
		envIf := p.saveEnv()
		fmt.Fprintf(w, "if %s then\n(", cond)
		p.stmts(v.Body.List, func() string {
			p.restoreEnvKeeping(saved)
			var b strings.Builder
			p.stmts(rest, k, &b)
			return b.String()
		}, w)
		w.WriteString(")\nelse\n(")
		p.env = envIf
		p.stmts(elseList, func() string {
			p.restoreEnvKeeping(saved)
			var b strings.Builder
			p.stmts(rest, k, &b)
			return b.String()
		}, w)
		w.WriteString(")")
		return
	}
	// join on the assigned variables
	var mod []string
	p.assigned(v.Body.List, map[string]bool{}, &mod)
	p.assigned(elseList, map[string]bool{}, &mod)
	// only variables visible before the if (not the Init's)
	vis := []string{}
	for _, m := range mod {
		if _, ok := saved[m]; ok {
			vis = append(vis, m)
		}
	}
	if len(vis) == 0 {
		p.restoreEnvKeeping(saved)
		p.stmts(rest, k, w)
		return
	}
	tup := tuple(vis)
	envIf := p.saveEnv()
	var tb, eb strings.Builder
	p.stmts(v.Body.List, func() string { return p.ok(tup) }, &tb)
	p.env = envIf
	p.stmts(elseList, func() string { return p.ok(tup) }, &eb)
	p.restoreEnvKeeping(saved)
	if p.monadic {
		fmt.Fprintf(w, "Go.bind (if %s then\n(%s)\nelse\n(%s)) fun %s =>\n", cond, tb.String(), eb.String(), tup)
	} else {
		fmt.Fprintf(w, "let %s := (if %s then\n(%s)\nelse\n(%s));\n", tup, cond, tb.String(), eb.String())
	}
	p.stmts(rest, k, w)
}

func (p *ptr) forStmt(v *ast.ForStmt, rest []ast.Stmt, k func() string, w *strings.Builder) {
	if !p.monadic {
		p.failf("internal: loop in a definition classified as pure")
	}
	bad := p.containsReturn(v.Body)
	ast.Inspect(v.Body, func(n ast.Node) bool {
		if st, ok := n.(ast.Stmt); ok {
			for k, rep := range p.it.replace {
				if replMatches(p.r.src(st), k) {
					if strings.Contains(rep.lean, "$LOOP") {
						bad = true // the spliced text leaves the loop
					}
					return false
				}
			}
		}
		if i, ok := n.(*ast.IfStmt); ok && p.r.src(i.Cond) == "err != nil" {
			return false
		}
		if _, ok := n.(*ast.BranchStmt); ok {
			bad = true
		}
		return !bad
	})
	if bad {
		p.forJump(v, rest, k, w)
		return
	}
	if p.loopNo >= len(p.it.fuel) {
		p.failf("no fuel configured for loop %d of %s", p.loopNo, p.it.name)
	}
	fuel := p.it.fuel[p.loopNo]
	p.loopNo++
	saved := p.saveEnv()
	if v.Init != nil {
		p.stmts([]ast.Stmt{v.Init}, func() string { return "" }, w)
	}
	var mod []string
	body := append([]ast.Stmt{}, v.Body.List...)
	if v.Post != nil {
		body = append(body, v.Post)
	}
	p.assigned(body, map[string]bool{}, &mod)
	sort.SliceStable(mod, func(i, j int) bool { return false })
	if len(mod) == 0 {
		p.failf("loop assigns nothing")
	}
	tup := tuple(mod)
	var bs binds
	cond := "true"
	if v.Cond != nil {
		cond, _ = p.expr(v.Cond, "bool", &bs)
		if len(bs) > 0 {
			p.failf("loop condition with an index or division")
		}
	}
	envLoop := p.saveEnv()
	var bb strings.Builder
	p.stmts(body, func() string { return "Go.Res.ok " + tup }, &bb)
	p.env = envLoop
	// the loop's condition and body become named definitions, closed over the variables in scope,
	// so that the tie theorems can speak about them
	var outer []string
	for n := range envLoop {
		isState := false
		for _, m := range mod {
			if m == n {
				isState = true
			}
		}
		if !isState {
			outer = append(outer, n)
		}
	}
	sort.Strings(outer)
	var ps, args, tys []string
	for _, n := range outer {
		ps = append(ps, fmt.Sprintf("(%s : %s)", pureIdent(n), p.leanType(envLoop[n])))
		args = append(args, pureIdent(n))
	}
	for _, m := range mod {
		tys = append(tys, p.leanType(envLoop[m]))
	}
	sty := strings.Join(tys, " × ")
	idx := p.loopNo - 1
	fmt.Fprintf(&p.aux, "def %s_cond%d %s : %s → Bool := fun %s =>\n%s\n\n", p.it.name, idx, strings.Join(ps, " "), sty, tup, cond)
	fmt.Fprintf(&p.aux, "def %s_body%d %s : %s → Go.Res (%s) := fun %s =>\n%s\n\n", p.it.name, idx, strings.Join(ps, " "), sty, sty, tup, bb.String())
	a := strings.Join(args, " ")
	fmt.Fprintf(w, "Go.bind (Go.loop (%s) (%s_cond%d %s) (%s_body%d %s) %s) fun %s =>\n", fuel, p.it.name, idx, a, p.it.name, idx, a, tup, tup)
	// variables declared by Init go out of scope, the others keep their (possibly updated) values
	p.restoreEnvKeeping(saved)
	p.stmts(rest, k, w)
}

// forJump translates `for cond { … break/continue/return err … }` (no post statement) into
// `Go.loopB fuel body state`: the body returns the new state and whether to go round again.
func (p *ptr) forJump(v *ast.ForStmt, rest []ast.Stmt, k func() string, w *strings.Builder) {
	if v.Post != nil || v.Init != nil {
		p.failf("loop with jumps and an init/post statement")
	}
	if p.loopTup != "" {
		p.failf("nested loops with jumps")
	}
	if p.loopNo >= len(p.it.fuel) {
		p.failf("no fuel configured for loop %d of %s", p.loopNo, p.it.name)
	}
	fuel := p.it.fuel[p.loopNo]
	p.loopNo++
	saved := p.saveEnv()
	var mod []string
	p.assigned(v.Body.List, map[string]bool{}, &mod)
	if len(mod) == 0 {
		p.failf("loop assigns nothing")
	}
	tup := tuple(mod)
	var bs binds
	cond := ""
	if v.Cond != nil {
		cond, _ = p.expr(v.Cond, "bool", &bs)
		if len(bs) > 0 {
			p.failf("loop condition with an index or division")
		}
	}
	envLoop := p.saveEnv()
	p.loopTup = tup
	var bb strings.Builder
	if cond != "" {
		fmt.Fprintf(&bb, "if (!%s) then Go.Res.ok (%s, false) else\n", paren(cond), tup)
	}
	p.stmts(v.Body.List, func() string { return fmt.Sprintf("Go.Res.ok (%s, true)", tup) }, &bb)
	p.loopTup = ""
	p.env = envLoop
	var outer []string
	for n := range envLoop {
		isState := false
		for _, m := range mod {
			if m == n {
				isState = true
			}
		}
		if !isState {
			outer = append(outer, n)
		}
	}
	sort.Strings(outer)
	var ps, args, tys []string
	for _, n := range outer {
		ps = append(ps, fmt.Sprintf("(%s : %s)", pureIdent(n), p.leanType(envLoop[n])))
		args = append(args, pureIdent(n))
	}
	for _, m := range mod {
		tys = append(tys, p.leanType(envLoop[m]))
	}
	sty := strings.Join(tys, " × ")
	idx := p.loopNo - 1
	fmt.Fprintf(&p.aux, "def %s_body%d %s : %s → Go.Res ((%s) × Bool) := fun %s =>\n%s\n\n", p.it.name, idx, strings.Join(ps, " "), sty, sty, tup, bb.String())
	fmt.Fprintf(w, "Go.bind (Go.loopB (%s) (%s_body%d %s) %s) fun %s =>\n", fuel, p.it.name, idx, strings.Join(args, " "), tup, tup)
	p.restoreEnvKeeping(saved)
	p.stmts(rest, k, w)
}

// ---- items -------------------------------------------------------------------------------------

func needsMonad(n ast.Node, p *ptr) bool {
	m := false
	ast.Inspect(n, func(x ast.Node) bool {
		switch v := x.(type) {
		case *ast.IndexExpr, *ast.ForStmt:
			m = true
		case *ast.SliceExpr:
			if v.Low != nil || v.High != nil {
				m = true
			}
		case *ast.BinaryExpr:
			if v.Op == token.QUO || v.Op == token.REM {
				if _, ok := p.constVal(v); !ok {
					m = true
				}
			}
		case *ast.AssignStmt:
			if v.Tok == token.QUO_ASSIGN || v.Tok == token.REM_ASSIGN {
				m = true
			}
		case *ast.CallExpr:
			fn := p.r.src(v.Fun)
			if fn == "make" {
				m = true
			}
			short := fn
			if i := strings.LastIndex(fn, "."); i >= 0 {
				short = fn[i+1:]
			}
			if sig, ok := p.funcs[short]; ok && sig.monadic {
				m = true
			}
		}
		return !m
	})
	return m
}

// a pattern starting with "~" matches anywhere in the statement's text, otherwise at its start
// replMatches: a replacement key is a source-text prefix of the statement; "PREFIX~TEXT" additionally requires TEXT
// to occur in the statement (to tell apart statements that begin alike)
func replMatches(text, key string) bool {
	if i := strings.Index(key, "~"); i > 0 {
		return strings.HasPrefix(text, key[:i]) && strings.Contains(text, key[i+1:])
	}
	return strings.HasPrefix(text, key)
}

func stmtMatches(text, pat string) bool {
	if strings.HasPrefix(pat, "~") {
		return strings.Contains(text, pat[1:])
	}
	return strings.HasPrefix(text, pat)
}

func findRange(list []ast.Stmt, from, to string, src func(ast.Node) string) []ast.Stmt {
	if strings.HasPrefix(from, "~") {
		// a "contains" pattern names the innermost statement that contains the text
		for _, s := range list {
			var found []ast.Stmt
			ast.Inspect(s, func(n ast.Node) bool {
				if found != nil {
					return false
				}
				switch b := n.(type) {
				case *ast.BlockStmt:
					found = findRange(b.List, from, to, src)
				case *ast.CaseClause:
					found = findRange(b.Body, from, to, src)
				}
				return found == nil
			})
			if found != nil {
				return found
			}
		}
	}
	for i, s := range list {
		if stmtMatches(src(s), from) {
			for j := i; j < len(list); j++ {
				if stmtMatches(src(list[j]), to) {
					return list[i : j+1]
				}
			}
			return nil
		}
	}
	for _, s := range list {
		var found []ast.Stmt
		ast.Inspect(s, func(n ast.Node) bool {
			if found != nil {
				return false
			}
			switch b := n.(type) {
			case *ast.BlockStmt:
				if n != s {
					found = findRange(b.List, from, to, src)
				}
			case *ast.CaseClause:
				found = findRange(b.Body, from, to, src)
			}
			return found == nil
		})
		if found != nil {
			return found
		}
		if b, ok := s.(*ast.BlockStmt); ok {
			if f := findRange(b.List, from, to, src); f != nil {
				return f
			}
		}
	}
	return nil
}

func (r *repo) methodDecl(rel, name string) *ast.FuncDecl {
	// name may be "Recv.Method"
	recv, meth := "", name
	if i := strings.Index(name, "."); i >= 0 {
		recv, meth = name[:i], name[i+1:]
	}
	for _, d := range r.file(rel).Decls {
		fd, ok := d.(*ast.FuncDecl)
		if !ok || fd.Name.Name != meth {
			continue
		}
		if recv == "" {
			return fd
		}
		if fd.Recv != nil && len(fd.Recv.List) == 1 && strings.TrimPrefix(r.src(fd.Recv.List[0].Type), "*") == recv {
			return fd
		}
	}
	return nil
}

func genPure(r *repo) string {
	var b strings.Builder
	b.WriteString("import RsyncModel.GoSem\nimport RsyncModel.PathClean\n/-! GENERATED by /verif/tools/extract (pure.go) from /repo on every run — do not edit.\nEach definition is the translation of the named Go function or statement range. -/\nset_option linter.unusedVariables false\nnamespace Gen.Pure\n\n")
	structs := map[string][]pvar{}
	p0 := &ptr{r: r, structs: structs}
	for _, ps := range pureStructs {
		var st *ast.StructType
		for _, d := range r.file(ps.file).Decls {
			if gd, ok := d.(*ast.GenDecl); ok && gd.Tok == token.TYPE {
				for _, sp := range gd.Specs {
					ts := sp.(*ast.TypeSpec)
					if s, ok := ts.Type.(*ast.StructType); ok && ts.Name.Name == ps.name {
						st = s
					}
				}
			}
		}
		if st == nil {
			r.fail("Pure: struct %s not found in %s", ps.name, ps.file)
			continue
		}
		var fields []pvar
		var skipped []string
		for _, f := range st.Fields.List {
			t := p0.goType(f.Type)
			for _, n := range f.Names {
				if _, ok := leanTypes[t]; ok {
					fields = append(fields, pvar{n.Name, t})
				} else {
					skipped = append(skipped, n.Name+" "+t)
				}
			}
		}
		structs[ps.name] = fields
		fmt.Fprintf(&b, "/-- %s:%s (fields not modelled: %s) -/\nstructure %s where\n", ps.file, ps.name, strings.Join(skipped, ", "), ps.name)
		for _, f := range fields {
			fmt.Fprintf(&b, "  %s : %s\n", pureIdent(f.name), leanTypes[f.typ])
		}
		b.WriteString("deriving Repr, DecidableEq\n\n")
	}
	funcs := map[string]*pureSig{}
	var names []string
	for i := range pureItems {
		it := &pureItems[i]
		def, sig, err := translateItem(r, it, structs, funcs)
		if err != "" {
			r.fail("Pure: %s (%s:%s): %s", it.name, it.file, it.fn, err)
			fmt.Fprintf(&b, "-- %s: NOT TRANSLATED: %s\n\n", it.name, err)
			continue
		}
		if it.from == "" {
			short := it.fn
			if j := strings.LastIndex(short, "."); j >= 0 {
				short = short[j+1:]
			}
			funcs[short] = sig
		}
		b.WriteString(def)
		names = append(names, it.name)
	}
	// the construction of the tag table in SendFiles (sender.go), statement by statement (not translated:
	// it sorts a slice of structs through a closure and fills a map; pinned as text, see C16)
	var setup []string
	if fd := r.funcDecl("internal/sender/sender.go", "SendFiles"); fd != nil {
		ast.Inspect(fd, func(x ast.Node) bool {
			bl, ok := x.(*ast.BlockStmt)
			if !ok {
				return true
			}
			for i, st := range bl.List {
				if strings.HasPrefix(r.src(st), "targets := make(") {
					for _, t := range bl.List[i:] {
						txt := oneLine(r.src(t))
						if strings.HasPrefix(txt, "st.lastMatch = 0") {
							break
						}
						setup = append(setup, txt)
					}
					return false
				}
			}
			return true
		})
	}
	if len(setup) == 0 {
		r.fail("Pure: tag table construction not found in SendFiles")
	}
	fmt.Fprintf(&b, "/-- sender.go SendFiles: how `targets` and `tagTable` are built -/\ndef tagTableSetup : List String := [%s]\n\n", quoteJoin(setup))
	fmt.Fprintf(&b, "/-- the definitions that were regenerated in this run -/\ndef translated : List String := [%s]\n\nend Gen.Pure\n", quoteJoin(names))
	return b.String()
}

func quoteJoin(l []string) string {
	q := make([]string, len(l))
	for i, s := range l {
		q[i] = fmt.Sprintf("%q", s)
	}
	return strings.Join(q, ", ")
}

func translateItem(r *repo, it *pureItem, structs map[string][]pvar, funcs map[string]*pureSig) (def string, sig *pureSig, errmsg string) {
	defer func() {
		if x := recover(); x != nil {
			if pe, ok := x.(pureErr); ok {
				errmsg = pe.msg
				return
			}
			panic(x)
		}
	}()
	fd := r.methodDecl(it.file, it.fn)
	if fd == nil {
		return "", nil, "function not found"
	}
	consts := map[string]int64{}
	for k, v := range allConsts(r) {
		consts[k] = v
	}
	for k, v := range fileConsts(r.file(it.file), consts) {
		consts[k] = v
	}
	p := &ptr{r: r, it: it, consts: consts, structs: structs, funcs: funcs, env: map[string]string{}}
	var params []pvar
	var body []ast.Stmt
	var k func() string
	if it.from != "" {
		body = findRange(fd.Body.List, it.from, it.to, r.src)
		if body == nil {
			return "", nil, fmt.Sprintf("statement range %q … %q not found", it.from, it.to)
		}
		params = it.params
	} else {
		if fd.Recv != nil {
			f := fd.Recv.List[0]
			skip := false
			for _, d := range it.dropParams {
				if len(f.Names) == 1 && d == f.Names[0].Name {
					skip = true
				}
			}
			if !skip {
				params = append(params, pvar{f.Names[0].Name, p.goType(f.Type)})
			}
		}
		for _, f := range fd.Type.Params.List {
			for _, n := range f.Names {
				skip := false
				for _, d := range it.dropParams {
					if d == n.Name {
						skip = true
					}
				}
				if !skip {
					params = append(params, pvar{n.Name, p.goType(f.Type)})
				}
			}
		}
		params = append(params, it.extra...)
		body = fd.Body.List
		if fd.Type.Results != nil {
			for _, f := range fd.Type.Results.List {
				t := p.goType(f.Type)
				n := len(f.Names)
				if n == 0 {
					n = 1
				}
				for i := 0; i < n; i++ {
					p.resTyp = append(p.resTyp, t)
				}
			}
			if len(p.resTyp) > 0 && p.resTyp[len(p.resTyp)-1] == "error" {
				p.hasErr = true
				p.resTyp = p.resTyp[:len(p.resTyp)-1]
			}
		}
	}
	for _, v := range params {
		p.env[v.name] = strings.TrimPrefix(v.typ, "*")
	}
	var namedResults []pvar
	if fd.Type.Results != nil {
		for _, f := range fd.Type.Results.List {
			t := p.goType(f.Type)
			if t == "error" {
				p.hasErr = true
			}
			if it.from == "" {
				for _, n := range f.Names {
					if n.Name != "_" && t != "error" {
						namedResults = append(namedResults, pvar{n.Name, t})
						p.env[n.Name] = t
					}
				}
			}
		}
	}
	p.monadic = (it.from == "" && p.hasErr) || len(it.replace) > 0 && strings.Contains(fmt.Sprint(it.replace), "Go.bind")
	for _, s := range body {
		if needsMonad(s, p) {
			p.monadic = true
		}
		if it.from != "" && p.containsReturn(s) {
			p.monadic = true
		}
	}
	// a pointer receiver that is assigned is returned as an extra result
	var mutated []string
	if it.from == "" {
		var mod []string
		p.assigned(body, map[string]bool{}, &mod)
		for _, m := range mod {
			for _, v := range params {
				if v.name == m && strings.HasPrefix(v.typ, "*") {
					mutated = append(mutated, m)
				}
			}
		}
	}
	if it.from != "" {
		k = func() string { return p.ok(tuple(append(append([]string{}, it.results...), it.extraResults...))) }
	} else {
		k = func() string {
			if len(p.resTyp) == 0 {
				return p.ok(tuple(mutated))
			}
			p.failf("control reaches the end of a function with results")
			return ""
		}
	}
	var w strings.Builder
	if len(mutated) > 0 {
		p.mutated = mutated
	}
	for _, nr := range namedResults {
		zero := "0"
		switch nr.typ {
		case "bool":
			zero = "false"
		case "[]byte":
			zero = "[]"
		}
		fmt.Fprintf(&w, "let %s : %s := %s;\n", pureIdent(nr.name), p.leanType(nr.typ), zero)
	}
	p.stmts(body, k, &w)
	var ps []string
	sig = &pureSig{lean: "Gen.Pure." + it.name, monadic: p.monadic}
	for _, v := range params {
		ps = append(ps, fmt.Sprintf("(%s : %s)", pureIdent(v.name), p.leanType(v.typ)))
		sig.params = append(sig.params, strings.TrimPrefix(v.typ, "*"))
	}
	sig.results = p.resTyp
	where := it.fn
	if it.from != "" {
		where += fmt.Sprintf(", statements %q … %q", it.from, it.to)
	}
	def = p.aux.String() + fmt.Sprintf("/-- %s: %s -/\ndef %s %s :=\n%s\n\n", it.file, where, it.name, strings.Join(ps, " "), w.String())
	return def, sig, ""
}

var allConstsCache map[string]int64

// allConsts: package-level constants of the files the translated code refers to
func allConsts(r *repo) map[string]int64 {
	if allConstsCache != nil {
		return allConstsCache
	}
	out := map[string]int64{}
	for _, f := range []string{"consts.go", "internal/rsyncwire/wire.go", "internal/sender/flist.go", "internal/sender/fileio.go", "internal/rsynccommon/rsynccommon.go", "internal/sender/sender.go"} {
		for k, v := range fileConsts(r.file(f), out) {
			out[k] = v
		}
	}
	allConstsCache = out
	return out
}
