package main

// OptTable, ServerOpts, TransferOpts, FlistConds: the option machinery both ends of a session
// share. Everything is emitted as Lean data; the model's parser, the server-option renderer and the
// file-list codec conditions are *computed from* these tables, so C14/C20/C08 theorems are
// re-checked against what the source says now.

import (
	"fmt"
	"go/ast"
	"go/token"
	"regexp"
	"sort"
	"strconv"
	"strings"
)

func init() {
	moreGens = append(moreGens, struct {
		name string
		f    func(*repo) string
	}{"OptTable", genOptTable}, struct {
		name string
		f    func(*repo) string
	}{"FlistConds", genFlistConds})
}

const optsFile = "internal/rsyncopts/rsyncopts.go"
const poptFile = "internal/rsyncopts/popt.go"

func leanStr(s string) string { return strconv.Quote(s) }

// leanChars renders a Go string as a Lean `List Char` expression
func leanChars(s string) string {
	if s == "" {
		return "[]"
	}
	return leanStr(s) + ".toList"
}

func leanInt(v int64) string {
	if v < 0 {
		return fmt.Sprintf("(%d)", v)
	}
	return fmt.Sprintf("%d", v)
}

type optRow struct {
	long, short string
	kind        string
	target      string // "" = nil
	val         int64
}

type optGen struct {
	r      *repo
	env    *constEnv
	fields map[string]bool
}

func (g *optGen) field(name string) string {
	g.fields[name] = true
	return ".f_" + name
}

// fieldOf recognises `o.x`, `opts.x`, `&o.x`
func (g *optGen) fieldOf(e ast.Expr) (string, bool) {
	if u, ok := e.(*ast.UnaryExpr); ok && u.Op == token.AND {
		e = u.X
	}
	sel, ok := e.(*ast.SelectorExpr)
	if !ok {
		return "", false
	}
	id, ok := sel.X.(*ast.Ident)
	if !ok || (id.Name != "o" && id.Name != "opts") {
		return "", false
	}
	return sel.Sel.Name, true
}

func (g *optGen) rows(fn string, file string) []optRow {
	fd := g.r.funcDecl(file, fn)
	if fd == nil {
		g.r.fail("OptTable: function %s not found in %s", fn, file)
		return nil
	}
	var rows []optRow
	ast.Inspect(fd, func(n ast.Node) bool {
		cl, ok := n.(*ast.CompositeLit)
		if !ok {
			return true
		}
		if _, isArr := cl.Type.(*ast.ArrayType); !isArr {
			return true
		}
		for _, el := range cl.Elts {
			rl, ok := el.(*ast.CompositeLit)
			if !ok || len(rl.Elts) != 5 {
				g.r.fail("OptTable: %s: row with unexpected shape: %s", fn, g.r.src(el))
				continue
			}
			var row optRow
			for i := 0; i < 2; i++ {
				bl, ok := rl.Elts[i].(*ast.BasicLit)
				if !ok || bl.Kind != token.STRING {
					g.r.fail("OptTable: %s: name is not a string literal: %s", fn, g.r.src(rl))
					continue
				}
				s, _ := strconv.Unquote(bl.Value)
				if i == 0 {
					row.long = s
				} else {
					row.short = s
				}
			}
			ai, ok := g.env.eval(rl.Elts[2], 0)
			if !ok {
				g.r.fail("OptTable: %s: argInfo not constant: %s", fn, g.r.src(rl))
				continue
			}
			switch ai & 0xff {
			case 0:
				row.kind = "none"
			case 1:
				row.kind = "str"
			case 2:
				row.kind = "int"
			case 7:
				row.kind = "val"
				if ai != 7 {
					row.kind = "other" // POPT_BIT_SET etc.
				}
			default:
				row.kind = "other"
			}
			if id, isId := rl.Elts[3].(*ast.Ident); isId && id.Name == "nil" {
				row.target = ""
			} else if f, ok := g.fieldOf(rl.Elts[3]); ok {
				row.target = f
				g.fields[f] = true
			} else if u, isU := rl.Elts[3].(*ast.UnaryExpr); isU && u.Op == token.AND {
				// &o.DontRestrict of the gokr.* tables (receiver `o` is the small struct itself)
				row.target = "gokr_" + strings.ReplaceAll(g.r.src(u.X), ".", "_")
				g.fields[row.target] = true
			} else {
				g.r.fail("OptTable: %s: unexpected arg expression %s", fn, g.r.src(rl.Elts[3]))
			}
			v, ok := g.env.eval(rl.Elts[4], 0)
			if !ok {
				g.r.fail("OptTable: %s: val not constant: %s", fn, g.r.src(rl))
			}
			row.val = v
			rows = append(rows, row)
		}
		return false
	})
	if len(rows) == 0 {
		g.r.fail("OptTable: no rows found in %s", fn)
	}
	return rows
}

func (g *optGen) emitRows(b *strings.Builder, name string, rows []optRow) {
	fmt.Fprintf(b, "def %s : List Row := [\n", name)
	for i, r := range rows {
		t := "none"
		if r.target != "" {
			t = "some .f_" + r.target
		}
		sep := ","
		if i == len(rows)-1 {
			sep = ""
		}
		fmt.Fprintf(b, "  ⟨%s, %s, .%s, %s, %s⟩%s\n", leanChars(r.long), leanChars(r.short), r.kind, t, leanInt(r.val), sep)
	}
	b.WriteString("]\n\n")
}

// acts translates the body of one `case` clause of the ParseArguments switch
func (g *optGen) acts(body []ast.Stmt) []string {
	var out []string
	// rule := pc.poptGetOptArg(); if <rule is neither "- …" nor "+ …" nor "!"> { return err }; append(filterRules, rule)
	if len(body) == 3 && g.r.src(body[0]) == "rule := pc.poptGetOptArg()" &&
		g.r.src(body[2]) == "opts.filterRules = append(opts.filterRules, rule)" {
		if is, ok := body[1].(*ast.IfStmt); ok && is.Init == nil && is.Else == nil && len(is.Body.List) >= 1 &&
			g.r.src(is.Cond) == `!strings.HasPrefix(rule, "- ") && !strings.HasPrefix(rule, "+ ") && rule != "!"` {
			if ret, ok := is.Body.List[len(is.Body.List)-1].(*ast.ReturnStmt); ok && len(ret.Results) == 1 && g.r.src(ret.Results[0]) != "nil" && !strings.HasPrefix(g.r.src(ret.Results[0]), "&ExitError") {
				onlyComments := true
				for _, st := range is.Body.List[:len(is.Body.List)-1] {
					_ = st
					onlyComments = false
				}
				if onlyComments {
					return []string{".ruleChecked"}
				}
			}
		}
	}
	for _, st := range body {
		src := g.r.src(st)
		switch s := st.(type) {
		case *ast.IncDecStmt:
			if f, ok := g.fieldOf(s.X); ok && s.Tok == token.INC {
				out = append(out, ".incr "+g.field(f))
				continue
			}
			if id, ok := s.X.(*ast.Ident); ok && id.Name == "version_opt_cnt" {
				out = append(out, ".version")
				continue
			}
		case *ast.AssignStmt:
			if len(s.Lhs) == 1 && len(s.Rhs) == 1 {
				if f, ok := g.fieldOf(s.Lhs[0]); ok {
					if v, ok := g.env.eval(s.Rhs[0], 0); ok && s.Tok == token.ASSIGN {
						out = append(out, fmt.Sprintf(".set %s %s", g.field(f), leanInt(v)))
						continue
					}
					if f == "filterRules" {
						// opts.filterRules = append(opts.filterRules, [prefix +] pc.poptGetOptArg())
						prefix := ""
						if call, ok := s.Rhs[0].(*ast.CallExpr); ok && len(call.Args) == 2 {
							if be, ok := call.Args[1].(*ast.BinaryExpr); ok && be.Op == token.ADD {
								if bl, ok := be.X.(*ast.BasicLit); ok {
									prefix, _ = strconv.Unquote(bl.Value)
								}
							}
							if strings.Contains(g.r.src(call.Args[1]), "pc.poptGetOptArg()") {
								out = append(out, ".rule "+leanChars(prefix))
								continue
							}
						}
					}
					if bl, ok := s.Rhs[0].(*ast.BasicLit); ok && bl.Kind == token.STRING {
						out = append(out, ".setStr "+g.field(f))
						continue
					}
				}
			}
		case *ast.ReturnStmt:
			if len(s.Results) == 1 {
				rs := g.r.src(s.Results[0])
				switch {
				case strings.HasPrefix(rs, "&ExitError"):
					out = append(out, ".exit")
				case rs == "nil":
					out = append(out, ".retOk")
				default:
					out = append(out, ".fail")
				}
				continue
			}
		case *ast.IfStmt:
			// if opts.f == 0 { opts.f = c }      |  if opts.f == 0 { return err }
			if be, ok := s.Cond.(*ast.BinaryExpr); ok && s.Init == nil && s.Else == nil && len(s.Body.List) == 1 {
				if f, ok := g.fieldOf(be.X); ok {
					if c, ok := g.env.eval(be.Y, 0); ok && c == 0 && be.Op == token.EQL {
						inner := g.acts(s.Body.List)
						if len(inner) == 1 && strings.HasPrefix(inner[0], ".set "+g.field(f)+" ") {
							out = append(out, strings.Replace(inner[0], ".set ", ".setIfZero ", 1))
							continue
						}
						if len(inner) == 1 && inner[0] == ".fail" {
							out = append(out, ".requireNonzero "+g.field(f))
							continue
						}
					}
				}
			}
			if s.Init != nil && strings.Contains(g.r.src(s.Init), "parseOutputWords(") {
				init := g.r.src(s.Init)
				which := ""
				if strings.Contains(init, "infoWords") {
					which = ".info"
				} else if strings.Contains(init, "debugWords") {
					which = ".debug"
				}
				// only an ExitError is propagated; every other error of parseOutputWords is dropped
				if which != "" && strings.Contains(g.r.src(s.Cond), "errors.As(err, new(*ExitError))") {
					out = append(out, ".words "+which)
					continue
				}
			}
		}
		out = append(out, ".other "+leanStr(strings.SplitN(src, "\n", 2)[0]))
	}
	return out
}

// switchCases returns (codes, acts) per clause of the first `switch opt` found in stmts (not descending into nested switches)
func (g *optGen) switchCases(sw *ast.SwitchStmt, daemonNested *[]ast.Stmt) [][2]string {
	var res [][2]string
	for _, cc := range sw.Body.List {
		clause := cc.(*ast.CaseClause)
		var acts []string
		isDaemon := false
		for _, e := range clause.List {
			if id, ok := e.(*ast.Ident); ok && id.Name == "OPT_DAEMON" {
				isDaemon = true
			}
		}
		if isDaemon {
			*daemonNested = clause.Body
			acts = []string{".daemonMode"}
		} else {
			acts = g.acts(clause.Body)
		}
		if clause.List == nil {
			res = append(res, [2]string{"default", "[" + strings.Join(acts, ", ") + "]"})
			continue
		}
		for _, e := range clause.List {
			v, ok := g.env.eval(e, 0)
			if !ok {
				g.r.fail("OptTable: case label %s is not a constant", g.r.src(e))
				continue
			}
			res = append(res, [2]string{leanInt(v), "[" + strings.Join(acts, ", ") + "]"})
		}
	}
	return res
}

func findSwitchOnOpt(r *repo, n ast.Node) *ast.SwitchStmt {
	var found *ast.SwitchStmt
	ast.Inspect(n, func(x ast.Node) bool {
		if sw, ok := x.(*ast.SwitchStmt); ok && found == nil && sw.Tag != nil && r.src(sw.Tag) == "opt" {
			found = sw
		}
		return found == nil
	})
	return found
}

type accessor struct {
	name, field, kind string // kind: ne0 | id
}

func (g *optGen) accessors() []accessor {
	var out []accessor
	for _, d := range g.r.file(optsFile).Decls {
		fd, ok := d.(*ast.FuncDecl)
		if !ok || fd.Recv == nil || fd.Body == nil || len(fd.Body.List) != 1 || fd.Type.Params.NumFields() != 0 {
			continue
		}
		if !strings.Contains(g.r.src(fd.Recv.List[0].Type), "Options") || strings.Contains(g.r.src(fd.Recv.List[0].Type), "Gokrazy") {
			continue
		}
		ret, ok := fd.Body.List[0].(*ast.ReturnStmt)
		if !ok || len(ret.Results) != 1 {
			continue
		}
		if be, ok := ret.Results[0].(*ast.BinaryExpr); ok && be.Op == token.NEQ {
			if f, ok := g.fieldOf(be.X); ok {
				if c, ok := g.env.eval(be.Y, 0); ok && c == 0 {
					out = append(out, accessor{fd.Name.Name, f, "ne0"})
					g.fields[f] = true
				}
			}
		}
	}
	sort.Slice(out, func(i, j int) bool { return out[i].name < out[j].name })
	return out
}

// goCond translates a Go boolean expression into a Lean BExpr term; atom resolves leaves
func goCond(r *repo, e ast.Expr, atom func(ast.Expr) (string, bool)) string {
	switch v := e.(type) {
	case *ast.ParenExpr:
		return goCond(r, v.X, atom)
	case *ast.UnaryExpr:
		if v.Op == token.NOT {
			return "(.not " + goCond(r, v.X, atom) + ")"
		}
	case *ast.BinaryExpr:
		switch v.Op {
		case token.LAND:
			return "(.and " + goCond(r, v.X, atom) + " " + goCond(r, v.Y, atom) + ")"
		case token.LOR:
			return "(.or " + goCond(r, v.X, atom) + " " + goCond(r, v.Y, atom) + ")"
		}
	}
	if a, ok := atom(e); ok {
		return "(.atom " + a + ")"
	}
	return "(.atom (.other " + leanStr(r.src(e)) + "))"
}

func conj(cs []string) string {
	if len(cs) == 0 {
		return ".tt"
	}
	s := cs[0]
	for _, c := range cs[1:] {
		s = "(.and " + s + " " + c + ")"
	}
	return s
}

func genOptTable(r *repo) string {
	imported := map[string]int64{"AF_INET": 2, "AF_INET6": 10, "MinInt32": -2147483648, "MaxInt32": 2147483647}
	popt := fileConsts(r.file(poptFile), imported)
	for k, v := range popt {
		imported[k] = v
	}
	oc := fileConsts(r.file(optsFile), imported)
	for k, v := range oc {
		imported[k] = v
	}
	g := &optGen{r: r, env: &constEnv{vals: imported}, fields: map[string]bool{}}
	for _, n := range []string{"POPT_ARG_NONE", "POPT_ARG_STRING", "POPT_ARG_INT", "POPT_ARG_VAL", "OPT_SERVER", "OPT_DAEMON", "OPT_SENDER"} {
		if _, ok := imported[n]; !ok {
			r.fail("OptTable: constant %s not found", n)
		}
	}
	if imported["POPT_ARG_NONE"] != 0 || imported["POPT_ARG_STRING"] != 1 || imported["POPT_ARG_INT"] != 2 || imported["POPT_ARG_VAL"] != 7 {
		r.fail("OptTable: popt argument kinds renumbered")
	}
	var client []optRow
	gok := g.rows("gokrazyTable", optsFile)
	dmn := g.rows("daemonTable", optsFile)
	// GokrazyDaemonOptions.table is the second method called `table`
	var gdmn []optRow
	cnt := 0
	for _, d := range r.file(optsFile).Decls {
		if fd, ok := d.(*ast.FuncDecl); ok && fd.Name.Name == "table" && fd.Recv != nil {
			cnt++
			recv := r.src(fd.Recv.List[0].Type)
			if strings.Contains(recv, "GokrazyDaemonOptions") {
				gdmn = (&optGen{r: r, env: g.env, fields: g.fields}).rowsOf(fd)
			}
			if strings.Contains(recv, "GokrazyClientOptions") {
				client = (&optGen{r: r, env: g.env, fields: g.fields}).rowsOf(fd)
			}
		}
	}
	if cnt != 2 {
		r.fail("OptTable: expected the two gokr.* `table` methods, found %d", cnt)
	}
	// how NewContext and the daemon branch assemble the tables
	if nc := r.funcDecl(optsFile, "NewContext"); nc == nil || !strings.Contains(r.src(nc), "slices.Concat(opts.GokrazyClient.table(), table)") {
		r.fail("OptTable: NewContext no longer builds the table as GokrazyClient.table() ++ opts.table()")
	}
	if f := r.funcDecl(optsFile, "NewOptionsWithGokrazyDefaults"); f == nil || !strings.Contains(r.src(f), "opts.gokrazyTable()") {
		r.fail("OptTable: NewOptionsWithGokrazyDefaults no longer uses gokrazyTable")
	}
	pa := r.funcDecl(optsFile, "ParseArguments")
	var mainCases, daemonCases [][2]string
	if pa == nil {
		r.fail("OptTable: ParseArguments not found")
	} else {
		sw := findSwitchOnOpt(r, pa)
		if sw == nil {
			r.fail("OptTable: `switch opt` not found in ParseArguments")
		} else {
			var nested []ast.Stmt
			mainCases = g.switchCases(sw, &nested)
			if nested == nil {
				r.fail("OptTable: case OPT_DAEMON not found")
			} else {
				blk := &ast.BlockStmt{List: nested}
				src := r.src(blk)
				if !strings.Contains(src, "slices.Concat(opts.GokrazyDaemon.table(), table)") || !strings.Contains(src, "table := opts.daemonTable()") {
					r.fail("OptTable: daemon branch no longer parses with GokrazyDaemon.table() ++ daemonTable()")
				}
				if !strings.Contains(strings.Join(strings.Fields(src), " "), "args: args,") {
					r.fail("OptTable: daemon branch no longer re-parses the whole argument list")
				}
				dsw := findSwitchOnOpt(r, blk)
				if dsw == nil {
					r.fail("OptTable: nested `switch opt` not found in the daemon branch")
				} else {
					var dummy []ast.Stmt
					daemonCases = g.switchCases(dsw, &dummy)
				}
				// tail of the daemon branch: opts.am_daemon = 1; return nil
				tail := g.acts(nested[len(nested)-2:])
				if len(tail) != 2 || tail[0] != ".set .f_am_daemon 1" || tail[1] != ".retOk" {
					r.fail("OptTable: daemon branch does not end with `opts.am_daemon = 1; return nil` (got %v)", tail)
				}
			}
		}
	}
	// the tail of ParseArguments ("set option defaults based on other options"): the top-level statements after the
	// option loop that mention a field the model's `finish` reads or writes, comments and line breaks removed
	var finishTail []string
	if pa != nil {
		if sw := findSwitchOnOpt(r, pa); sw != nil {
			after := false
			cre := regexp.MustCompile(`(?s)/\*.*?\*/|//[^\n]*`)
			for _, st := range pa.Body.List {
				if !after {
					if st.Pos() <= sw.Pos() && sw.End() <= st.End() {
						after = true
					}
					continue
				}
				src := strings.Join(strings.Fields(cre.ReplaceAllString(r.src(st), "")), " ")
				for _, id := range []string{"version_opt_cnt", "opts.human_readable", "opts.recurse", "opts.xfer_dirs", "opts.delete_mode", "opts.list_only"} {
					if strings.Contains(src, id) {
						finishTail = append(finishTail, src)
						break
					}
				}
			}
		}
	}
	if len(finishTail) == 0 {
		r.fail("OptTable: no statements found after the option loop of ParseArguments")
	}
	accs := g.accessors()
	// defaults
	type kv struct {
		k string
		v int64
	}
	var defs []kv
	for _, d := range r.file(optsFile).Decls {
		gd, ok := d.(*ast.GenDecl)
		if !ok || gd.Tok != token.VAR {
			continue
		}
		for _, sp := range gd.Specs {
			vs := sp.(*ast.ValueSpec)
			if len(vs.Names) == 1 && vs.Names[0].Name == "gokrazyDefaults" && len(vs.Values) == 1 {
				if cl, ok := vs.Values[0].(*ast.CompositeLit); ok {
					for _, el := range cl.Elts {
						if kvx, ok := el.(*ast.KeyValueExpr); ok {
							if v, ok := g.env.eval(kvx.Value, 0); ok {
								k := r.src(kvx.Key)
								defs = append(defs, kv{k, v})
								g.fields[k] = true
							}
						}
					}
				}
			}
		}
	}
	if len(defs) == 0 {
		r.fail("OptTable: gokrazyDefaults not found")
	}

	var b strings.Builder
	b.WriteString("import RsyncModel.BExpr\n/-! GENERATED by /verif/tools/extract from internal/rsyncopts (rsyncopts.go, popt.go, serveroptions.go),\ninternal/maincmd/clientmaincmd.go and rsyncd/rsyncd.go on every run — do not edit. -/\nnamespace Gen.OptTable\n\n")
	// Field enum
	var fs []string
	for f := range g.fields {
		fs = append(fs, f)
	}
	sort.Strings(fs)
	b.WriteString("inductive Field\n")
	for _, f := range fs {
		fmt.Fprintf(&b, "  | f_%s\n", f)
	}
	b.WriteString("deriving DecidableEq, Repr\n\n")
	b.WriteString("inductive Kind | none | str | int | val | other\nderiving DecidableEq, Repr\n\n")
	b.WriteString("structure Row where\n  long : List Char\n  short : List Char\n  kind : Kind\n  target : Option Field\n  val : Int\nderiving Repr\n\n")
	b.WriteString("inductive Words | info | debug\nderiving DecidableEq, Repr\n\n")
	b.WriteString("/-- one statement of a `case` clause of the `switch opt` in ParseArguments -/\ninductive Act\n  | set (f : Field) (v : Int)\n  | setIfZero (f : Field) (v : Int)\n  | incr (f : Field)\n  | requireNonzero (f : Field)\n  | setStr (f : Field)\n  | rule (pfx : List Char)\n  | ruleChecked\n  | words (w : Words)\n  | version\n  | daemonMode\n  | exit\n  | fail\n  | retOk\n  | other (src : String)\nderiving Repr\n\n")
	g.emitRows(&b, "clientRows", client)
	g.emitRows(&b, "gokrazyRows", gok)
	g.emitRows(&b, "gokrDaemonRows", gdmn)
	g.emitRows(&b, "daemonRows", dmn)
	emitCases := func(name string, cs [][2]string) {
		fmt.Fprintf(&b, "def %s : List (Int × List Act) := [\n", name)
		var lines []string
		def := "[.fail]"
		for _, c := range cs {
			if c[0] == "default" {
				def = c[1]
				continue
			}
			lines = append(lines, fmt.Sprintf("  (%s, %s)", c[0], c[1]))
		}
		b.WriteString(strings.Join(lines, ",\n"))
		b.WriteString("\n]\n")
		fmt.Fprintf(&b, "def %sDefault : List Act := %s\n\n", name, def)
	}
	b.WriteString("/-- the statements after the option loop of ParseArguments that touch what `Opts.finish` models -/\ndef finishTail : List String := [\n")
	for i, t := range finishTail {
		sep := ","
		if i == len(finishTail)-1 {
			sep = ""
		}
		fmt.Fprintf(&b, "  %s%s\n", leanStr(t), sep)
	}
	b.WriteString("]\n\n")
	emitCases("mainCases", mainCases)
	emitCases("daemonCases", daemonCases)
	fmt.Fprintf(&b, "def optServer : Int := %d\ndef optSender : Int := %d\ndef optDaemon : Int := %d\n\n", imported["OPT_SERVER"], imported["OPT_SENDER"], imported["OPT_DAEMON"])
	// accessors
	b.WriteString("/-- the boolean accessors `func (o *Options) X() bool { return o.f != 0 }` -/\ninductive Acc\n")
	for _, a := range accs {
		fmt.Fprintf(&b, "  | %s\n", a.name)
	}
	b.WriteString("deriving DecidableEq, Repr\n\n")
	b.WriteString("def accField : Acc → Field\n")
	for _, a := range accs {
		fmt.Fprintf(&b, "  | .%s => .f_%s\n", a.name, a.field)
	}
	b.WriteString("\ndef allAccs : List Acc := [")
	for i, a := range accs {
		if i > 0 {
			b.WriteString(", ")
		}
		b.WriteString("." + a.name)
	}
	b.WriteString("]\n\ndef accName : Acc → String\n")
	for _, a := range accs {
		fmt.Fprintf(&b, "  | .%s => %s\n", a.name, leanStr(a.name))
	}
	b.WriteString("\ndef defaults : List (Field × Int) := [")
	for i, d := range defs {
		if i > 0 {
			b.WriteString(", ")
		}
		fmt.Fprintf(&b, "(.f_%s, %s)", d.k, leanInt(d.v))
	}
	b.WriteString("]\n\n")
	// names of the --info / --debug items
	for _, wn := range []string{"infoWords", "debugWords"} {
		var names []string
		for _, d := range r.file(optsFile).Decls {
			gd, ok := d.(*ast.GenDecl)
			if !ok || gd.Tok != token.VAR {
				continue
			}
			for _, sp := range gd.Specs {
				vs := sp.(*ast.ValueSpec)
				if len(vs.Names) == 1 && vs.Names[0].Name == wn && len(vs.Values) == 1 {
					if cl, ok := vs.Values[0].(*ast.CompositeLit); ok {
						for _, el := range cl.Elts {
							if rl, ok := el.(*ast.CompositeLit); ok && len(rl.Elts) > 0 {
								if bl, ok := rl.Elts[0].(*ast.BasicLit); ok && bl.Kind == token.STRING {
									n, _ := strconv.Unquote(bl.Value)
									names = append(names, leanChars(strings.ToLower(n)))
								}
							}
						}
					}
				}
			}
		}
		if len(names) == 0 {
			r.fail("OptTable: %s not found", wn)
		}
		fmt.Fprintf(&b, "def %sLower : List (List Char) := [%s]\n\n", wn, strings.Join(names, ", "))
	}
	accSet := map[string]bool{}
	for _, a := range accs {
		accSet[a.name] = true
	}
	accAtom := func(e ast.Expr) (string, bool) {
		if call, ok := e.(*ast.CallExpr); ok && len(call.Args) == 0 {
			if sel, ok := call.Fun.(*ast.SelectorExpr); ok {
				if id, ok := sel.X.(*ast.Ident); ok && (id.Name == "o" || id.Name == "opts") && accSet[sel.Sel.Name] {
					return "." + sel.Sel.Name, true
				}
			}
		}
		return "", false
	}
	accOrOther := func(e ast.Expr) (string, bool) {
		if a, ok := accAtom(e); ok {
			return "(.acc " + a + ")", true
		}
		return "", false
	}

	// ---- ServerOptions: ordered items
	b.WriteString("/-- an atom of a condition in ServerOptions / ClientRun / handleConn*: an accessor, or source text the extractor does not understand -/\ninductive CAtom\n  | acc (a : Acc)\n  | other (src : String)\nderiving DecidableEq, Repr\n\n")
	b.WriteString("inductive Tok\n  | arg (s : List Char)      -- a whole argument appended to sargv\n  | letter (c : Char)         -- a letter appended to argstr\n  | lettersHere               -- `if argstr != \"-\" { sargv = append(sargv, argstr) }`\nderiving DecidableEq, Repr\n\n")
	b.WriteString("structure Item where\n  cond : BExpr CAtom\n  tok : Tok\nderiving Repr\n\n")
	so := r.funcDecl("internal/rsyncopts/serveroptions.go", "ServerOptions")
	var items []string
	if so == nil {
		r.fail("ServerOpts: ServerOptions not found")
	} else {
		var walk func(stmts []ast.Stmt, guards []string)
		one := func(st ast.Stmt, guards []string) bool {
			as, ok := st.(*ast.AssignStmt)
			if !ok || len(as.Lhs) != 1 || len(as.Rhs) != 1 {
				return false
			}
			lhs := r.src(as.Lhs[0])
			if lhs == "sargv" && as.Tok == token.ASSIGN {
				if call, ok := as.Rhs[0].(*ast.CallExpr); ok && r.src(call.Fun) == "append" && len(call.Args) == 2 && r.src(call.Args[0]) == "sargv" {
					if bl, ok := call.Args[1].(*ast.BasicLit); ok && bl.Kind == token.STRING {
						s, _ := strconv.Unquote(bl.Value)
						items = append(items, fmt.Sprintf("  ⟨%s, .arg %s⟩", conj(guards), leanChars(s)))
						return true
					}
					if r.src(call.Args[1]) == "argstr" {
						// guard must be exactly `argstr != "-"`
						items = append(items, "  ⟨.tt, .lettersHere⟩")
						return true
					}
				}
			}
			if lhs == "argstr" && as.Tok == token.ADD_ASSIGN {
				if bl, ok := as.Rhs[0].(*ast.BasicLit); ok && bl.Kind == token.STRING {
					s, _ := strconv.Unquote(bl.Value)
					if len(s) == 1 {
						items = append(items, fmt.Sprintf("  ⟨%s, .letter '%s'⟩", conj(guards), s))
						return true
					}
				}
			}
			if lhs == "argstr" && as.Tok == token.DEFINE && r.src(as.Rhs[0]) == `"-"` {
				return true
			}
			return false
		}
		walk = func(stmts []ast.Stmt, guards []string) {
			for _, st := range stmts {
				switch s := st.(type) {
				case *ast.IfStmt:
					if r.src(s.Cond) == `argstr != "-"` {
						if len(s.Body.List) != 1 || !one(s.Body.List[0], nil) || s.Else != nil {
							r.fail("ServerOpts: unexpected body of `if argstr != \"-\"`")
						}
						continue
					}
					c := goCond(r, s.Cond, accOrOther)
					walk(s.Body.List, append(append([]string{}, guards...), c))
					neg := append(append([]string{}, guards...), "(.not "+c+")")
					switch e := s.Else.(type) {
					case *ast.BlockStmt:
						walk(e.List, neg)
					case *ast.IfStmt:
						walk([]ast.Stmt{e}, neg)
					}
				case *ast.DeclStmt:
					if r.src(s) != "var sargv []string" {
						r.fail("ServerOpts: unexpected declaration %s", r.src(s))
					}
				case *ast.ReturnStmt:
					if r.src(s) != "return sargv" {
						r.fail("ServerOpts: unexpected return %s", r.src(s))
					}
				default:
					if !one(st, guards) {
						r.fail("ServerOpts: statement not understood: %s", strings.SplitN(r.src(st), "\n", 2)[0])
					}
				}
			}
		}
		walk(so.Body.List, nil)
	}
	b.WriteString("def serverItems : List Item := [\n" + strings.Join(items, ",\n") + "\n]\n\n")

	// ---- TransferOpts literals
	tfields := map[string]bool{}
	lit := func(file, fn string) [][2]string {
		fd := r.funcDecl(file, fn)
		if fd == nil {
			r.fail("TransferOpts: %s not found in %s", fn, file)
			return nil
		}
		var res [][2]string
		found := false
		ast.Inspect(fd, func(n ast.Node) bool {
			cl, ok := n.(*ast.CompositeLit)
			if !ok || r.src(cl.Type) != "receiver.TransferOpts" {
				return true
			}
			found = true
			for _, el := range cl.Elts {
				kvx, ok := el.(*ast.KeyValueExpr)
				if !ok {
					continue
				}
				if a, ok := accAtom(kvx.Value); ok {
					res = append(res, [2]string{r.src(kvx.Key), a})
					tfields[r.src(kvx.Key)] = true
				}
			}
			return false
		})
		if !found {
			r.fail("TransferOpts: receiver.TransferOpts literal not found in %s", fn)
		}
		return res
	}
	cl := lit("internal/maincmd/clientmaincmd.go", "ClientRun")
	sv := lit("rsyncd/rsyncd.go", "handleConnReceiver")
	var tfs []string
	for f := range tfields {
		tfs = append(tfs, f)
	}
	sort.Strings(tfs)
	b.WriteString("/-- fields of receiver.TransferOpts that are filled from an accessor -/\ninductive TField\n")
	for _, f := range tfs {
		fmt.Fprintf(&b, "  | %s\n", f)
	}
	b.WriteString("deriving DecidableEq, Repr\n\n")
	emitT := func(name string, m [][2]string) {
		fmt.Fprintf(&b, "def %s : List (TField × Acc) := [", name)
		for i, p := range m {
			if i > 0 {
				b.WriteString(", ")
			}
			fmt.Fprintf(&b, "(.%s, %s)", p[0], p[1])
		}
		b.WriteString("]\n")
	}
	emitT("clientRecvOpts", cl)
	emitT("serverRecvOpts", sv)
	// the sender hands the parsed options themselves to sender.Transfer on both sides
	for _, p := range [][2]string{{"internal/maincmd/clientmaincmd.go", "ClientRun"}, {"rsyncd/rsyncd.go", "handleConnSender"}} {
		fd := r.funcDecl(p[0], p[1])
		ok := false
		if fd != nil {
			ast.Inspect(fd, func(n ast.Node) bool {
				if cl, isCl := n.(*ast.CompositeLit); isCl && r.src(cl.Type) == "sender.Transfer" {
					for _, el := range cl.Elts {
						if kvx, isKv := el.(*ast.KeyValueExpr); isKv && r.src(kvx.Key) == "Opts" && r.src(kvx.Value) == "opts" {
							ok = true
						}
					}
				}
				return true
			})
		}
		if !ok {
			r.fail("TransferOpts: sender.Transfer{Opts: opts} not found in %s", p[1])
		}
	}

	// ---- who sends / expects the filter list, and which mode the server enters
	b.WriteString("\n/-- (function, what, guard): where the filter list is written / read, in source order -/\ndef filterSchedule : List (String × String × BExpr CAtom) := [\n")
	var sched []string
	guardWalk := func(file, fn string, match func(ast.Node) (string, bool)) {
		fd := r.funcDecl(file, fn)
		if fd == nil {
			r.fail("filterSchedule: %s not found", fn)
			return
		}
		var walk func(n ast.Node, guards []string)
		walk = func(n ast.Node, guards []string) {
			if n == nil {
				return
			}
			if is, ok := n.(*ast.IfStmt); ok {
				if is.Init != nil {
					walk(is.Init, guards)
				}
				c := goCond(r, is.Cond, accOrOther)
				walk(is.Body, append(append([]string{}, guards...), c))
				if is.Else != nil {
					walk(is.Else, append(append([]string{}, guards...), "(.not "+c+")"))
				}
				return
			}
			if what, ok := match(n); ok {
				sched = append(sched, fmt.Sprintf("  (%s, %s, %s)", leanStr(fn), leanStr(what), conj(guards)))
				return
			}
			// children
			var kids []ast.Node
			ast.Inspect(n, func(c ast.Node) bool {
				if c == n {
					return true
				}
				if c != nil {
					kids = append(kids, c)
				}
				return false
			})
			for _, k := range kids {
				walk(k, guards)
			}
		}
		walk(fd.Body, nil)
	}
	guardWalk("internal/maincmd/clientmaincmd.go", "ClientRun", func(n ast.Node) (string, bool) {
		if rs, ok := n.(*ast.RangeStmt); ok && r.src(rs.X) == "opts.FilterRules()" {
			return "send", true
		}
		return "", false
	})
	recvMatch := func(n ast.Node) (string, bool) {
		if c, ok := n.(*ast.CallExpr); ok && r.src(c.Fun) == "sender.RecvFilterList" {
			return "recv", true
		}
		return "", false
	}
	guardWalk("rsyncd/rsyncd.go", "handleConnReceiver", recvMatch)
	guardWalk("rsyncd/rsyncd.go", "handleConnSender", recvMatch)
	guardWalk("rsyncd/rsyncd.go", "handleConn", func(n ast.Node) (string, bool) {
		if c, ok := n.(*ast.CallExpr); ok {
			switch r.src(c.Fun) {
			case "s.handleConnSender":
				return "dispatch-sender", true
			case "s.handleConnReceiver":
				return "dispatch-receiver", true
			}
		}
		return "", false
	})
	b.WriteString(strings.Join(sched, ",\n") + "\n]\n\n")
	// in ClientRun the receiver part comes after `if opts.Sender() { … return }`
	if cr := r.funcDecl("internal/maincmd/clientmaincmd.go", "ClientRun"); cr != nil {
		ok := false
		for _, st := range cr.Body.List {
			if is, isIf := st.(*ast.IfStmt); isIf && r.src(is.Cond) == "opts.Sender()" && is.Else == nil && endsInJump(is.Body) {
				ok = true
			}
		}
		if !ok {
			r.fail("filterSchedule: ClientRun no longer has the shape `if opts.Sender() { …; return }` followed by the receiver part")
		}
	}
	if hc := r.funcDecl("rsyncd/rsyncd.go", "handleConn"); hc != nil {
		ok := false
		for _, st := range hc.Body.List {
			if is, isIf := st.(*ast.IfStmt); isIf && r.src(is.Cond) == "opts.Sender()" && is.Else == nil && endsInJump(is.Body) {
				ok = true
			}
		}
		if !ok {
			r.fail("filterSchedule: handleConn no longer has the shape `if opts.Sender() { …; return s.handleConnSender }`")
		}
	}
	b.WriteString("end Gen.OptTable\n")
	return b.String()
}

// rowsOf extracts the rows of a table method given its declaration
func (g *optGen) rowsOf(fd *ast.FuncDecl) []optRow {
	tmp := &repo{root: g.r.root, fset: g.r.fset, files: map[string]*ast.File{"x": {Name: ast.NewIdent("x"), Decls: []ast.Decl{fd}}}}
	g2 := &optGen{r: tmp, env: g.env, fields: g.fields}
	rows := g2.rows(fd.Name.Name, "x")
	g.r.errors = append(g.r.errors, tmp.errors...)
	return rows
}
