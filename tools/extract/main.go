// extract regenerates /verif/lean/RsyncModel/Gen/*.lean from the Go sources in a repository
// working tree. Only go/parser and go/ast are used; every anchor that is missing or has an
// unexpected shape is reported and makes the run fail (exit 2) — nothing is silently skipped.
package main

import (
	"fmt"
	"go/ast"
	"go/parser"
	"go/printer"
	"go/token"
	"os"
	"path/filepath"
	"strings"
)

type repo struct {
	root   string
	fset   *token.FileSet
	files  map[string]*ast.File
	errors []string
}

func (r *repo) fail(format string, args ...any) {
	r.errors = append(r.errors, fmt.Sprintf(format, args...))
}

func (r *repo) file(rel string) *ast.File {
	if f, ok := r.files[rel]; ok {
		return f
	}
	f, err := parser.ParseFile(r.fset, filepath.Join(r.root, rel), nil, parser.ParseComments)
	if err != nil {
		r.fail("parse %s: %v", rel, err)
		f = &ast.File{Name: ast.NewIdent("missing")}
	}
	r.files[rel] = f
	return f
}

func (r *repo) src(n ast.Node) string {
	var b strings.Builder
	printer.Fprint(&b, r.fset, n)
	return b.String()
}

// funcDecl finds a top-level function or method by name.
func (r *repo) funcDecl(rel, name string) *ast.FuncDecl {
	for _, d := range r.file(rel).Decls {
		if fd, ok := d.(*ast.FuncDecl); ok && fd.Name.Name == name {
			return fd
		}
	}
	return nil
}

func (r *repo) findCall(rel, fn, callee string) *ast.CallExpr {
	fd := r.funcDecl(rel, fn)
	if fd == nil {
		return nil
	}
	var found *ast.CallExpr
	ast.Inspect(fd, func(n ast.Node) bool {
		if c, ok := n.(*ast.CallExpr); ok && found == nil && r.src(c.Fun) == callee {
			found = c
		}
		return found == nil
	})
	return found
}

func (r *repo) findCompareLiteral(rel, fn, lhs string, op token.Token) (int64, bool) {
	fd := r.funcDecl(rel, fn)
	if fd == nil {
		return 0, false
	}
	var val int64
	ok := false
	env := &constEnv{vals: map[string]int64{}}
	ast.Inspect(fd, func(n ast.Node) bool {
		if b, isb := n.(*ast.BinaryExpr); isb && !ok && b.Op == op && r.src(b.X) == lhs {
			if v, good := env.eval(b.Y, 0); good {
				val, ok = v, true
			}
		}
		return !ok
	})
	return val, ok
}

func main() {
	if len(os.Args) != 3 {
		fmt.Fprintln(os.Stderr, "usage: extract <repo> <outdir>")
		os.Exit(2)
	}
	r := &repo{root: os.Args[1], fset: token.NewFileSet(), files: map[string]*ast.File{}}
	out := os.Args[2]
	os.MkdirAll(out, 0o755)
	gens := []struct {
		name string
		f    func(*repo) string
	}{
		{"Consts", genConsts},
	}
	gens = append(gens, moreGens...)
	for _, g := range gens {
		s := g.f(r)
		p := filepath.Join(out, g.name+".lean")
		// only rewrite when changed so that lake does not rebuild needlessly
		if old, err := os.ReadFile(p); err != nil || string(old) != s {
			if err := os.WriteFile(p, []byte(s), 0o644); err != nil {
				fmt.Fprintln(os.Stderr, err)
				os.Exit(2)
			}
		}
	}
	if len(r.errors) > 0 {
		for _, e := range r.errors {
			fmt.Println("EXTRACT-ERROR:", e)
		}
		os.Exit(3)
	}
}
