package main

var moreGens []struct {
	name string
	f    func(*repo) string
}
