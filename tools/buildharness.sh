#!/bin/bash
# Builds the correspondence harness from <repo>'s current working tree (default /repo) with the
# overlay (nothing is written into the repository). Output: <out> (default /verif/.work/verifharness)
set -e
V=$(cd "$(dirname "$0")/.." && pwd)   # the verification tree this script belongs to (a snapshot uses its own sources)
REPO=${1:-/repo}
OUT=${2:-$V/.work/verifharness}
mkdir -p "$(dirname "$OUT")"
WORK=$(cd "$(dirname "$OUT")" && pwd)
OUT="$WORK/$(basename "$OUT")"
export GOFLAGS=-mod=mod GOPROXY=off
python3 - "$REPO" "$WORK" "$V" <<'PY'
import json,os,sys,glob
repo,work,v=sys.argv[1],sys.argv[2],sys.argv[3]
rep={}
for f in glob.glob(v+'/harness/verifharness/*.go'):
    rep[os.path.join(repo,'internal/verifharness',os.path.basename(f))]=f
for d in glob.glob(v+'/harness/shims/*'):
    pkg=os.path.basename(d).replace('__','/')
    for f in glob.glob(d+'/*.go'):
        rep[os.path.join(repo,pkg,os.path.basename(f))]=f
json.dump({'Replace':rep},open(os.path.join(work,'overlay.json'),'w'),indent=1)
PY
cd "$REPO" && go build $3 -tags verif -overlay "$WORK/overlay.json" -o "$OUT" ./internal/verifharness
