#!/usr/bin/env python3
"""tools/storeseed.py <PROP> <n> <caught_by text> <checks_run text> : copy /tmp/wt-<PROP>/SEED to /verif/seeded/<PROP>-<n>/"""
import json,os,shutil,sys
pid,n,how,res=sys.argv[1:5]
src=f'/tmp/wt-{pid}/SEED'; dst=f'/verif/seeded/{pid}-{n}'
os.makedirs(dst,exist_ok=True)
for f in os.listdir(src):
    if f=='go.mod': continue
    shutil.copy(os.path.join(src,f),dst)
if os.path.exists(dst+'/demo_test.go'): os.rename(dst+'/demo_test.go',dst+'/demo_test.go.txt')
m=json.load(open(dst+'/meta.json'))
m.update({'breaks_property':pid,'origin':'independent sub-agent given only the property text and a scratch worktree',
  'confirmed_by_me':'tools/verifyseed.sh: applied to a fresh worktree of /repo HEAD: go build ok; baseline 81/81 stable tests pass; demo fails with the patch and passes without it',
  'checks_run':res,'caught_by':how,'demo_file':'demo_test.go.txt (copy to the package directory named in demo_cmd as *_test.go)'})
json.dump(m,open(dst+'/meta.json','w'),indent=1)
print('stored',dst)
